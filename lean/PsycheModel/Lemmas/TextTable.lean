import PsycheModel.TextTable
/-! Helper lemmas for C18 (chained hash table of text elements), for an arbitrary hash function. -/
namespace PsycheModel.TextTable

theorem takeWhile_nulFree {w : Bytes} (hw : NulFree w) : w.takeWhile (fun b => b != 0) = w := by
  induction w with
  | nil => rfl
  | cons a t ih =>
    have ha : (a != 0) = true := by simpa using hw a (by simp)
    have ht : NulFree t := fun b hb => hw b (by simp [hb])
    rw [List.takeWhile_cons, ha, if_pos rfl, ih ht]

theorem strncpyImage_nulFree {w : Bytes} (hw : NulFree w) : strncpyImage w = w := by
  unfold strncpyImage
  simp only [takeWhile_nulFree hw, Nat.sub_self, List.replicate_zero, List.append_nil]

theorem strncmpEq_iff {a : Bytes} (ha : NulFree a) : ∀ b : Bytes, strncmpEq a b = true ↔ a = b := by
  induction a with
  | nil => intro b; cases b <;> simp [strncmpEq]
  | cons x t ih =>
    intro b
    cases b with
    | nil => simp [strncmpEq]
    | cons y u =>
      have hx : x ≠ 0 := ha x (by simp)
      have ht : NulFree t := fun b hb => ha b (by simp [hb])
      by_cases hxy : x = y
      · subst hxy; simp [strncmpEq, hx, ih ht u]
      · simp [strncmpEq, hxy]

theorem elemEq_iff {e : Bytes} (he : NulFree e) (w : Bytes) : elemEq e w = true ↔ e = w := by
  unfold elemEq
  rw [Bool.and_eq_true, strncmpEq_iff he]
  constructor
  · intro h; exact h.2
  · intro h; subst h; simp

theorem push_length (bs : List (List Nat)) (b i : Nat) : (push bs b i).length = bs.length := by
  induction bs generalizing b with
  | nil => rfl
  | cons c cs ih => cases b <;> simp [push, ih]

theorem chainAt_push (bs : List (List Nat)) (b i b' : Nat) :
    chainAt (push bs b i) b' = if b = b' ∧ b < bs.length then i :: chainAt bs b' else chainAt bs b' := by
  induction bs generalizing b b' with
  | nil => simp [push, chainAt]
  | cons c cs ih =>
    cases b with
    | zero =>
      cases b' with
      | zero => simp [push, chainAt]
      | succ b' => simp [push, chainAt]
    | succ b =>
      cases b' with
      | zero => simp [push, chainAt]
      | succ b' =>
        have := ih b b'
        simp only [chainAt, push, List.getD_cons_succ, List.length_cons] at this ⊢
        rw [this]
        simp

theorem chainAt_replicate (n b : Nat) : chainAt (List.replicate n ([] : List Nat)) b = [] := by
  unfold chainAt
  by_cases hb : b < n
  · simp [List.getD, hb]
  · simp [List.getD, hb]

variable (h : Bytes → Nat)

theorem rehashFrom_length (els : List Bytes) (n : Nat) : ∀ (k : Nat) (bs : List (List Nat)),
    (rehashFrom h els n bs k).length = bs.length := by
  intro k
  induction k with
  | zero => intro bs; rfl
  | succ k ih => intro bs; simp only [rehashFrom]; rw [ih, push_length]

theorem mem_rehashFrom (els : List Bytes) (n : Nat) : ∀ (k : Nat) (bs : List (List Nat)), k ≤ n → bs.length ≠ 0 →
    ∀ b j, j ∈ chainAt (rehashFrom h els n bs k) b ↔
      (j ∈ chainAt bs b ∨ (n - k ≤ j ∧ j < n ∧ h (els.getD j []) % bs.length = b)) := by
  intro k
  induction k with
  | zero =>
    intro bs _ _ b j
    simp only [rehashFrom]
    constructor
    · intro hj; exact Or.inl hj
    · intro hj; rcases hj with hj | hj
      · exact hj
      · omega
  | succ k ih =>
    intro bs hk hbs b j
    simp only [rehashFrom]
    rw [ih _ (by omega) (by rw [push_length]; exact hbs), push_length, chainAt_push]
    have hmod : h (els.getD (n - (k + 1)) []) % bs.length < bs.length := Nat.mod_lt _ (by omega)
    constructor
    · intro hj
      rcases hj with hj | hj
      · split at hj
        · rename_i hc
          rcases List.mem_cons.mp hj with hj | hj
          · right; subst hj; exact ⟨by omega, by omega, hc.1⟩
          · left; exact hj
        · left; exact hj
      · right; exact ⟨by omega, hj.2.1, hj.2.2⟩
    · intro hj
      rcases hj with hj | hj
      · left; split
        · exact List.mem_cons_of_mem _ hj
        · exact hj
      · by_cases hjk : j = n - (k + 1)
        · left
          subst hjk
          rw [if_pos ⟨hj.2.2, hmod⟩]
          exact List.mem_cons_self
        · right; exact ⟨by omega, hj.2.1, hj.2.2⟩

theorem rehash_length (els : List Bytes) (oc : Nat) : (rehash h els oc).length ≠ 0 := by
  unfold rehash
  simp only []
  rw [rehashFrom_length, List.length_replicate]
  split <;> omega

theorem mem_rehash (els : List Bytes) (oc : Nat) (b j : Nat) :
    j ∈ chainAt (rehash h els oc) b ↔ (j < els.length ∧ h (els.getD j []) % (rehash h els oc).length = b) := by
  have hl : (rehash h els oc).length = (if oc = 0 then 4 else oc * 2) := by
    unfold rehash; simp only []; rw [rehashFrom_length, List.length_replicate]
  rw [hl]
  unfold rehash
  simp only []
  rw [mem_rehashFrom h els els.length els.length _ (Nat.le_refl _)
    (by rw [List.length_replicate]; split <;> omega), chainAt_replicate, List.length_replicate]
  simp

/-- representation invariant -/
structure Inv (s : St) : Prop where
  nf : ∀ e ∈ s.elements, NulFree e
  nd : s.elements.Nodup
  emp : s.buckets.length = 0 → s.elements = []
  cover : ∀ i (hi : i < s.elements.length), i ∈ chainAt s.buckets (h s.elements[i] % s.buckets.length)
  bound : ∀ b, ∀ j ∈ chainAt s.buckets b, j < s.elements.length

theorem init_inv : Inv h init := by
  refine ⟨?_, ?_, ?_, ?_, ?_⟩ <;> simp [init, chainAt]

theorem findIn_some {els : List Bytes} {w : Bytes} : ∀ {l : List Nat} {i : Nat},
    findIn els w l = some i → i ∈ l ∧ ∃ e, els[i]? = some e ∧ elemEq e w = true := by
  intro l
  induction l with
  | nil => intro i hf; simp [findIn] at hf
  | cons j rest ih =>
    intro i hf
    simp only [findIn] at hf
    cases hj : els[j]? with
    | none =>
      rw [hj] at hf
      have := ih hf
      exact ⟨List.mem_cons_of_mem _ this.1, this.2⟩
    | some e =>
      rw [hj] at hf
      simp only [] at hf
      by_cases he : elemEq e w = true
      · rw [if_pos he] at hf
        cases hf
        exact ⟨List.mem_cons_self, e, hj, he⟩
      · rw [if_neg he] at hf
        have := ih hf
        exact ⟨List.mem_cons_of_mem _ this.1, this.2⟩

theorem findIn_none {els : List Bytes} {w : Bytes} : ∀ {l : List Nat},
    findIn els w l = none → ∀ i ∈ l, ∀ e, els[i]? = some e → elemEq e w = false := by
  intro l
  induction l with
  | nil => intro _ i hi; simp at hi
  | cons j rest ih =>
    intro hf i hi e hie
    simp only [findIn] at hf
    cases hj : els[j]? with
    | none =>
      rw [hj] at hf
      rcases List.mem_cons.mp hi with hi | hi
      · subst hi; rw [hj] at hie; cases hie
      · exact ih hf i hi e hie
    | some e' =>
      rw [hj] at hf
      simp only [] at hf
      by_cases he : elemEq e' w = true
      · rw [if_pos he] at hf; cases hf
      · rw [if_neg he] at hf
        rcases List.mem_cons.mp hi with hi | hi
        · subst hi; rw [hj] at hie; cases hie; simpa using he
        · exact ih hf i hi e hie

theorem find_some {s : St} (hi : Inv h s) {w : Bytes} {i : Nat} (hf : find h s w = some i) :
    s.elements[i]? = some w := by
  unfold find at hf
  split at hf
  · cases hf
  · obtain ⟨_, e, he, heq⟩ := findIn_some hf
    have hmem : e ∈ s.elements := List.mem_of_getElem? he
    rw [elemEq_iff (hi.nf e hmem)] at heq
    rw [he, heq]

theorem find_none {s : St} (hi : Inv h s) {w : Bytes} (hf : find h s w = none) : w ∉ s.elements := by
  intro hmem
  obtain ⟨i, hlt, hiw⟩ := List.getElem_of_mem hmem
  unfold find at hf
  split at hf
  · rename_i h0
    have := hi.emp h0
    rw [this] at hlt; simp at hlt
  · have hc := hi.cover i hlt
    rw [hiw] at hc
    have := findIn_none hf i hc w (by rw [List.getElem?_eq_getElem hlt, hiw])
    have h2 := (elemEq_iff (hi.nf w hmem) w).2 rfl
    rw [h2] at this; cases this

/-- one `findOrInsert` call keeps the invariant, only appends to `elements`, and returns the identity of
an element whose text is the word -/
theorem findOrInsert_spec {s : St} (hi : Inv h s) {w : Bytes} (hw : NulFree w) :
    Inv h (findOrInsert h s w).1 ∧ (∃ t, (findOrInsert h s w).1.elements = s.elements ++ t) ∧
      (findOrInsert h s w).1.elements[(findOrInsert h s w).2]? = some w := by
  unfold findOrInsert
  cases hf : find h s w with
  | some i =>
    exact ⟨hi, ⟨[], by simp⟩, find_some h hi hf⟩
  | none =>
    have hnot := find_none h hi hf
    simp only [strncpyImage_nulFree hw]
    have hnf : ∀ e ∈ s.elements ++ [w], NulFree e := by
      intro e he
      rcases List.mem_append.mp he with he | he
      · exact hi.nf e he
      · simp at he; subst he; exact hw
    have hnd : (s.elements ++ [w]).Nodup := by
      rw [List.nodup_append]
      refine ⟨hi.nd, by simp, ?_⟩
      intro a ha b hb
      simp at hb; subst hb
      intro hab; subst hab; exact hnot ha
    have hget : (s.elements ++ [w])[s.elements.length]? = some w := by simp
    split
    · -- rehash
      refine ⟨⟨hnf, hnd, ?_, ?_, ?_⟩, ⟨[w], rfl⟩, hget⟩
      · intro h0; exact absurd h0 (rehash_length h _ _)
      · intro i hlt
        rw [mem_rehash]
        refine ⟨hlt, ?_⟩
        simp only [List.getD_eq_getElem?_getD, List.getElem?_eq_getElem hlt, Option.getD_some]
      · intro b j hj
        rw [mem_rehash] at hj
        exact hj.1
    · rename_i hcond
      have hb0 : s.buckets.length ≠ 0 := fun h0 => hcond (Or.inl h0)
      refine ⟨⟨hnf, hnd, ?_, ?_, ?_⟩, ⟨[w], rfl⟩, hget⟩
      · intro h0; rw [push_length] at h0; exact absurd h0 hb0
      · intro i hlt
        simp only [push_length, chainAt_push]
        have hmod : h w % s.buckets.length < s.buckets.length := Nat.mod_lt _ (by omega)
        by_cases hil : i < s.elements.length
        · have : (s.elements ++ [w])[i] = s.elements[i] := List.getElem_append_left hil
          rw [this]
          have hc := hi.cover i hil
          split
          · exact List.mem_cons_of_mem _ hc
          · exact hc
        · have hie : i = s.elements.length := by simp at hlt; omega
          subst hie
          simp [hmod]
      · intro b j hj
        rw [chainAt_push] at hj
        simp only [List.length_append, List.length_singleton]
        split at hj
        · rcases List.mem_cons.mp hj with hj | hj
          · omega
          · have := hi.bound b j hj; omega
        · have := hi.bound b j hj; omega

end PsycheModel.TextTable
