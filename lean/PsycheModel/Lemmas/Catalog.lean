import PsycheModel.Catalog
/-! Helper lemmas for the name-catalog theorem (Props/C09.lean): what `catalogUse` / `catalogDef` leave in the maps, the
simulation invariant between the catalog and C's environment, its preservation by every item. -/
namespace PsycheModel.Catalog

@[simp] theorem other_other (r : Role) : r.other.other = r := by cases r <;> rfl
theorem other_ne (r : Role) : r.other ≠ r := by cases r <;> simp [Role.other]

@[simp] theorem get_set_same (σ : Cat) (r : Role) (m : Map) : (σ.set r m).get r = m := by cases r <;> rfl
@[simp] theorem get_set_other (σ : Cat) (r : Role) (m : Map) : (σ.set r m).get r.other = σ.get r.other := by cases r <;> rfl
@[simp] theorem get_other_set (σ : Cat) (r : Role) (m : Map) : (σ.set r.other m).get r = σ.get r := by cases r <;> rfl

theorem role_cases (r r' : Role) : r' = r ∨ r' = r.other := by cases r <;> cases r' <;> simp [Role.other]

/-- what `catalogUse` leaves in the map of the role used -/
theorem catUse_same (σ : Cat) (d : Nat) (r : Role) (k : Name) :
    (catUse σ d r k).get r k = (match σ.get r k with | some e => some e | none => some ⟨false, d⟩) := by
  unfold catUse
  cases h : σ.get r k with
  | some e =>
    simp only [h]
    split
    · split <;> simp [h]
    · exact h
  | none =>
    simp only [h]
    split
    · split <;> simp [upd]
    · simp [upd]

/-- … in the map of the other role: an entry from a shallower enclosure is dropped -/
theorem catUse_other (σ : Cat) (d : Nat) (r : Role) (k : Name) :
    (catUse σ d r k).get r.other k = (match σ.get r.other k with | some e => if e.depth < d then none else some e | none => none) := by
  unfold catUse
  cases h : σ.get r k with
  | some e =>
    simp only [h]
    cases h2 : σ.get r.other k with
    | none => simp [h2]
    | some e2 =>
      simp only [h2]
      by_cases hd : e2.depth < d
      · simp [hd, upd]
      · simp [hd, h2]
  | none =>
    simp only [h, get_set_other]
    cases h2 : σ.get r.other k with
    | none => simp [h2]
    | some e2 =>
      simp only [h2]
      by_cases hd : e2.depth < d
      · simp [hd, upd]
      · simp [hd, h2]

/-- … and for every other name -/
theorem catUse_ne (σ : Cat) (d : Nat) (r r' : Role) (k k' : Name) (hk : k' ≠ k) : (catUse σ d r k).get r' k' = σ.get r' k' := by
  unfold catUse
  rcases role_cases r r' with rfl | rfl
  · cases h : σ.get r' k with
    | some e =>
      simp only [h]
      split
      · split <;> simp
      · rfl
    | none =>
      simp only [h]
      split
      · split <;> simp [upd, hk]
      · simp [upd, hk]
  · cases h : σ.get r k with
    | some e =>
      simp only [h]
      split
      · split <;> simp [upd, hk]
      · rfl
    | none =>
      simp only [h]
      split
      · split <;> simp [upd, hk]
      · simp

theorem catDef_same (σ : Cat) (r : Role) (k : Name) :
    (catDef σ r k).get r k = some ⟨true, match σ.get r k with | some e => e.depth | none => 0⟩ := by
  simp only [catDef, get_set_same, upd, if_true]
  cases σ.get r k <;> rfl
theorem catDef_other (σ : Cat) (r : Role) (k' : Name) : (catDef σ r k).get r.other k' = σ.get r.other k' := by
  simp [catDef]
theorem catDef_ne (σ : Cat) (r : Role) (k k' : Name) (hk : k' ≠ k) : (catDef σ r k).get r k' = σ.get r k' := by
  simp [catDef, upd, hk]


/-- depth (1 = outermost) of the innermost scope that declares `k` -/
def lvl : Env → Name → Nat
  | [], _ => 0
  | s :: rest, k => match s k with | some _ => rest.length + 1 | none => lvl rest k

theorem lvl_le : ∀ (env : Env) (k : Name), lvl env k ≤ env.length
  | [], _ => Nat.le_refl _
  | s :: rest, k => by
    simp only [lvl, List.length_cons]
    split
    · exact Nat.le_refl _
    · exact Nat.le_succ_of_le (lvl_le rest k)

/-- the catalog (as of some point of the walk, at depth `d`) reflects C's environment there -/
structure Sim (σ : Cat) (env : Env) (d : Nat) : Prop where
  len : env.length = d
  dep : ∀ r k e, σ.get r k = some e → e.depth ≤ d
  decl : ∀ k r, lookup env k = some r →
    (∃ e, σ.get r k = some e ∧ e.isDef = true ∧ e.depth ≤ lvl env k) ∧ (∀ e, σ.get r.other k = some e → e.isDef = false)
  undecl : ∀ k, lookup env k = none → ∀ r e, σ.get r k = some e → e.isDef = false

theorem decide_of_sim {σ env d} (h : Sim σ env d) {k r} (hl : lookup env k = some r) : decide σ k = some r := by
  obtain ⟨⟨e, he, hdef, _⟩, ho⟩ := h.decl k r hl
  have h1 : isDefIn σ r k = true := by simp [isDefIn, he, hdef]
  have h2 : isDefIn σ r.other k = false := by
    unfold isDefIn
    cases h3 : σ.get r.other k with
    | none => rfl
    | some e' => exact ho e' h3
  cases r with
  | ty => simp only [Role.other] at h2; simp [decide, h1, h2]
  | nonTy => simp only [Role.other] at h2; simp [decide, h1, h2]

theorem sim_block {σ env d} (h : Sim σ env d) : Sim σ ((fun _ => none) :: env) (d + 1) := by
  refine ⟨by simp [h.len], fun r k e he => Nat.le_succ_of_le (h.dep r k e he), ?_, ?_⟩
  · intro k r hl
    have hl' : lookup env k = some r := by simpa [lookup] using hl
    simpa [lvl] using h.decl k r hl'
  · intro k hl
    exact h.undecl k (by simpa [lookup] using hl)

theorem sim_use {σ env d} (h : Sim σ env d) (r : Role) (k : Name) (hv : lookup env k = none ∨ lookup env k = some r) :
    Sim (catUse σ d r k) env d := by
  refine ⟨h.len, ?_, ?_, ?_⟩
  · intro r' k' e he
    by_cases hk : k' = k
    · subst hk
      rcases role_cases r r' with rfl | rfl
      · rw [catUse_same] at he
        cases h0 : σ.get r' k' with
        | some e0 => rw [h0] at he; cases he; exact h.dep _ _ _ h0
        | none => rw [h0] at he; cases he; exact Nat.le_refl _
      · rw [catUse_other] at he
        cases h0 : σ.get r.other k' with
        | some e0 =>
          rw [h0] at he
          by_cases hd : e0.depth < d
          · simp [hd] at he
          · simp only [hd, if_false] at he; cases he; exact h.dep _ _ _ h0
        | none => rw [h0] at he; simp at he
    · rw [catUse_ne _ _ _ _ _ _ hk] at he; exact h.dep _ _ _ he
  · intro k' r' hl
    by_cases hk : k' = k
    · subst hk
      have hr : r' = r := by
        rcases hv with hv | hv
        · rw [hv] at hl; cases hl
        · rw [hv] at hl; cases hl; rfl
      subst hr
      obtain ⟨⟨e, he, hdef, hlv⟩, ho⟩ := h.decl k' r' hl
      refine ⟨⟨e, by rw [catUse_same, he], hdef, hlv⟩, ?_⟩
      intro e' he'
      rw [catUse_other] at he'
      cases h0 : σ.get r'.other k' with
      | some e0 =>
        rw [h0] at he'
        by_cases hd : e0.depth < d
        · simp [hd] at he'
        · simp only [hd, if_false] at he'; cases he'; exact ho _ h0
      | none => rw [h0] at he'; simp at he'
    · obtain ⟨⟨e, he, hdef, hlv⟩, ho⟩ := h.decl k' r' hl
      refine ⟨⟨e, by rw [catUse_ne _ _ _ _ _ _ hk]; exact he, hdef, hlv⟩, ?_⟩
      intro e' he'
      rw [catUse_ne _ _ _ _ _ _ hk] at he'
      exact ho _ he'
  · intro k' hl r' e he
    by_cases hk : k' = k
    · subst hk
      rcases role_cases r r' with rfl | rfl
      · rw [catUse_same] at he
        cases h0 : σ.get r' k' with
        | some e0 => rw [h0] at he; cases he; exact h.undecl _ hl _ _ h0
        | none => rw [h0] at he; cases he; rfl
      · rw [catUse_other] at he
        cases h0 : σ.get r.other k' with
        | some e0 =>
          rw [h0] at he
          by_cases hd : e0.depth < d
          · simp [hd] at he
          · simp only [hd, if_false] at he; cases he; exact h.undecl _ hl _ _ h0
        | none => rw [h0] at he; simp at he
    · rw [catUse_ne _ _ _ _ _ _ hk] at he; exact h.undecl _ hl _ _ he


theorem lookup_declare (s : Scope) (rest : Env) (r : Role) (k k' : Name) :
    lookup (declare (s :: rest) r k) k' = if k' = k then some r else lookup (s :: rest) k' := by
  by_cases hk : k' = k <;> simp [declare, lookup, hk]

theorem lvl_declare_same (s : Scope) (rest : Env) (r : Role) (k : Name) : lvl (declare (s :: rest) r k) k = rest.length + 1 := by
  simp [declare, lvl]
theorem lvl_declare_ne (s : Scope) (rest : Env) (r : Role) (k k' : Name) (hk : k' ≠ k) :
    lvl (declare (s :: rest) r k) k' = lvl (s :: rest) k' := by
  simp [declare, lvl, hk]

theorem sim_decl {σ : Cat} {s : Scope} {rest : Env} {d : Nat} (h : Sim σ (s :: rest) d) (r : Role) (k : Name)
    (hv : s k ≠ some r.other) : Sim (catDef (catUse σ d r k) r k) (declare (s :: rest) r k) d := by
  have hlen : rest.length + 1 = d := by simpa using h.len
  have depth_le : (match (catUse σ d r k).get r k with | some e => e.depth | none => 0) ≤ d := by
    rw [catUse_same]
    cases h1 : σ.get r k with
    | some e1 => simpa using h.dep _ _ _ h1
    | none => simp
  -- the entries of the new catalog
  have get_ne : ∀ r' k', k' ≠ k → (catDef (catUse σ d r k) r k).get r' k' = σ.get r' k' := by
    intro r' k' hk
    rcases role_cases r r' with rfl | rfl
    · rw [catDef_ne _ _ _ _ hk, catUse_ne _ _ _ _ _ _ hk]
    · rw [catDef_other, catUse_ne _ _ _ _ _ _ hk]
  have get_other : (catDef (catUse σ d r k) r k).get r.other k =
      (match σ.get r.other k with | some e => if e.depth < d then none else some e | none => none) := by
    rw [catDef_other, catUse_other]
  -- an entry of the other role that survives is not a declaration
  have other_nondef : ∀ e, (catDef (catUse σ d r k) r k).get r.other k = some e → e.isDef = false := by
    intro e he
    rw [get_other] at he
    cases h0 : σ.get r.other k with
    | none => rw [h0] at he; simp at he
    | some e0 =>
      rw [h0] at he
      by_cases hd : e0.depth < d
      · simp [hd] at he
      · simp only [hd, if_false] at he
        cases he
        cases hl : lookup (s :: rest) k with
        | none => exact h.undecl k hl _ _ h0
        | some r0 =>
          rcases role_cases r r0 with rfl | rfl
          · exact (h.decl k r0 hl).2 _ h0
          · -- declared in the other role: not in the top scope, so in a shallower one - the entry would have been dropped
            exfalso
            obtain ⟨⟨e1, he1, _, hlv⟩, _⟩ := h.decl k r.other hl
            rw [h0] at he1; cases he1
            have hs : s k = none := by
              cases hsk : s k with
              | none => rfl
              | some r1 =>
                have : lookup (s :: rest) k = some r1 := by simp [lookup, hsk]
                rw [hl] at this; cases this
                exact absurd hsk hv
            have : lvl (s :: rest) k ≤ rest.length := by simp only [lvl, hs]; exact lvl_le rest k
            omega
  refine ⟨by simpa [declare] using h.len, ?_, ?_, ?_⟩
  · intro r' k' e he
    by_cases hk : k' = k
    · subst hk
      rcases role_cases r r' with rfl | rfl
      · rw [catDef_same] at he
        cases he
        exact depth_le
      · rw [get_other] at he
        cases h0 : σ.get r.other k' with
        | none => rw [h0] at he; simp at he
        | some e0 =>
          rw [h0] at he
          by_cases hd : e0.depth < d
          · simp [hd] at he
          · simp only [hd, if_false] at he; cases he; exact h.dep _ _ _ h0
    · rw [get_ne r' k' hk] at he; exact h.dep _ _ _ he
  · intro k' r' hl
    rw [lookup_declare] at hl
    by_cases hk : k' = k
    · subst hk
      simp only [if_true] at hl
      cases hl
      refine ⟨⟨_, catDef_same _ _ _, rfl, ?_⟩, other_nondef⟩
      rw [lvl_declare_same, hlen]
      exact depth_le
    · simp only [hk, if_false] at hl
      obtain ⟨⟨e, he, hdef, hlv⟩, ho⟩ := h.decl k' r' hl
      refine ⟨⟨e, by rw [get_ne r' k' hk]; exact he, hdef, by rw [lvl_declare_ne _ _ _ _ _ hk]; exact hlv⟩, ?_⟩
      intro e' he'
      rw [get_ne _ k' hk] at he'
      exact ho _ he'
  · intro k' hl r' e he
    rw [lookup_declare] at hl
    by_cases hk : k' = k
    · simp [hk] at hl
    · simp only [hk, if_false] at hl
      rw [get_ne r' k' hk] at he
      exact h.undecl k' hl _ _ he


/-- the environment after an item -/
def envAfter (env : Env) : Item → Env
  | .decl r k => declare env r k
  | _ => env

mutual
theorem run_item_correct : ∀ (i : Item) (d : Nat) (σ : Cat) (env : Env), Sim σ env d → validItem env i = true →
    Sim (runItem d σ env i).1 (runItem d σ env i).2.1 d ∧ (runItem d σ env i).2.1 = envAfter env i ∧
    ∀ p ∈ (runItem d σ env i).2.2, ∀ r, p.2 = some r → p.1 = some r
  | .decl r k, d, σ, env, h, hv => by
    cases env with
    | nil => simp [validItem] at hv
    | cons s rest =>
      have hv' : s k ≠ some r.other := by simpa [validItem] using hv
      exact ⟨by simpa [runItem] using sim_decl h r k hv', by simp [runItem, envAfter], by simp [runItem]⟩
  | .use r k, d, σ, env, h, hv => by
    have hv' : lookup env k = none ∨ lookup env k = some r := by simpa [validItem] using hv
    exact ⟨by simpa [runItem] using sim_use h r k hv', by simp [runItem, envAfter], by simp [runItem]⟩
  | .amb k, d, σ, env, h, _ => by
    refine ⟨by simpa [runItem] using h, by simp [runItem, envAfter], ?_⟩
    intro p hp r hr
    simp only [runItem, List.mem_singleton] at hp
    subst hp
    exact decide_of_sim h hr
  | .block is, d, σ, env, h, hv => by
    refine ⟨by simpa [runItem] using h, by simp [runItem, envAfter], ?_⟩
    intro p hp r hr
    simp only [runItem] at hp
    exact run_items_correct is (d + 1) σ _ (sim_block h) (by simpa [validItem] using hv) p hp r hr
theorem run_items_correct : ∀ (is : Items) (d : Nat) (σ : Cat) (env : Env), Sim σ env d → validItems env is = true →
    ∀ p ∈ runItems d σ env is, ∀ r, p.2 = some r → p.1 = some r
  | .nil, _, _, _, _, _ => by simp [runItems]
  | .cons i rest, d, σ, env, h, hv => by
    simp only [validItems, Bool.and_eq_true] at hv
    obtain ⟨hs, henv, hout⟩ := run_item_correct i d σ env h hv.1
    intro p hp r hr
    simp only [runItems, List.mem_append] at hp
    rcases hp with hp | hp
    · exact hout p hp r hr
    · have hv2 : validItems (runItem d σ env i).2.1 rest = true := by
        rw [henv]
        cases i <;> simpa [envAfter] using hv.2
      exact run_items_correct rest d _ _ hs hv2 p hp r hr
end

end PsycheModel.Catalog
