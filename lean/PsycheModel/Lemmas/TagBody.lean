import PsycheModel.TagBody
/-! Helper lemmas for the struct / union / enum specifier parser model: each loop inverts its printer and answers only printings. -/
namespace PsycheModel.TagBody

/-- the following tokens do not begin with a specifier -/
def NoSp : List Tok → Prop
  | .sp _ :: _ => False
  | _ => True

theorem specs_pp (ss : List Nat) (rest : List Tok) (h : NoSp rest) : specs (ss.map .sp ++ rest) = (ss, rest) := by
  induction ss with
  | nil =>
    match rest, h with
    | [], _ => rfl
    | .sp _ :: _, h => exact h.elim
    | .ksu :: _, _ | .kenum :: _, _ | .id _ :: _, _ | .dcl _ :: _, _ | .e _ :: _, _ | .lb :: _, _ | .rb :: _, _ | .semi :: _, _
    | .comma :: _, _ | .colon :: _, _ | .eq :: _, _ => rfl
  | cons s ss ih => simp [specs, ih]

theorem specs_sound : ∀ (ts : List Tok), ts = (specs ts).1.map .sp ++ (specs ts).2 ∧ NoSp (specs ts).2 := by
  intro ts
  induction ts with
  | nil => exact ⟨rfl, trivial⟩
  | cons t ts ih =>
    cases t <;> first
      | exact ⟨rfl, trivial⟩
      | (simp only [specs, List.map_cons, List.cons_append]; exact ⟨by rw [← ih.1], ih.2⟩)

theorem ppMDs_cons (d : MD) (ds : List MD) (hne : ds ≠ []) : ppMDs (d :: ds) = ppMD d ++ .comma :: ppMDs ds := by
  match ds, hne with
  | d' :: ds', _ => rfl

theorem mds_pp : ∀ (ds : List MD) (rest : List Tok), ds ≠ [] → mds (ppMDs ds ++ rest) = some (ds, rest)
  | [], _, h => absurd rfl h
  | [d], rest, _ => by
    match d with
    | .plain n => simp [ppMDs, ppMD, mds]
    | .bitfield (some n) w => simp [ppMDs, ppMD, mds]
    | .bitfield none w => simp [ppMDs, ppMD, mds]
  | d :: d' :: ds, rest, _ => by
    have ih := mds_pp (d' :: ds) rest (by simp)
    rw [ppMDs_cons d (d' :: ds) (by simp)]
    match d with
    | .plain n => simp [ppMD, mds, ih]
    | .bitfield (some n) w => simp [ppMD, mds, ih]
    | .bitfield none w => simp [ppMD, mds, ih]

theorem mds_sound : ∀ (ts : List Tok) (ds : List MD) (r : List Tok), mds ts = some (ds, r) → ts = ppMDs ds ++ r ∧ ds ≠ [] := by
  intro ts
  induction ts using mds.induct with
  | case1 n w r ds' r' hrec ih =>
    intro ds r0 h
    simp only [mds, hrec] at h
    obtain ⟨rfl, rfl⟩ := by simpa using h
    obtain ⟨h1, h2⟩ := ih _ _ hrec
    exact ⟨by rw [ppMDs_cons _ _ h2, h1]; simp [ppMD], by simp⟩
  | case2 n w r hrec ih => intro ds r0 h; simp [mds, hrec] at h
  | case3 n w r => intro ds r0 h; simp only [mds, Option.some.injEq, Prod.mk.injEq] at h; obtain ⟨rfl, rfl⟩ := h; refine ⟨?_, by simp⟩; simp [ppMDs, ppMD]
  | case4 n r ds' r' hrec ih =>
    intro ds r0 h
    simp only [mds, hrec] at h
    obtain ⟨rfl, rfl⟩ := by simpa using h
    obtain ⟨h1, h2⟩ := ih _ _ hrec
    exact ⟨by rw [ppMDs_cons _ _ h2, h1]; simp [ppMD], by simp⟩
  | case5 n r hrec ih => intro ds r0 h; simp [mds, hrec] at h
  | case6 n r => intro ds r0 h; simp only [mds, Option.some.injEq, Prod.mk.injEq] at h; obtain ⟨rfl, rfl⟩ := h; refine ⟨?_, by simp⟩; simp [ppMDs, ppMD]
  | case7 w r ds' r' hrec ih =>
    intro ds r0 h
    simp only [mds, hrec] at h
    obtain ⟨rfl, rfl⟩ := by simpa using h
    obtain ⟨h1, h2⟩ := ih _ _ hrec
    exact ⟨by rw [ppMDs_cons _ _ h2, h1]; simp [ppMD], by simp⟩
  | case8 w r hrec ih => intro ds r0 h; simp [mds, hrec] at h
  | case9 w r => intro ds r0 h; simp only [mds, Option.some.injEq, Prod.mk.injEq] at h; obtain ⟨rfl, rfl⟩ := h; refine ⟨?_, by simp⟩; simp [ppMDs, ppMD]
  | case10 ts h1 h2 h3 h4 h5 h6 => intro ds r0 h; unfold mds at h; split at h <;> simp_all

theorem ppMDs_head (ds : List MD) (hne : ds ≠ []) (X : List Tok) :
    (∃ n r, ppMDs ds ++ X = .dcl n :: r) ∨ (∃ r, ppMDs ds ++ X = .colon :: r) := by
  match ds, hne with
  | [d], _ => cases d with
    | plain n => exact .inl ⟨n, _, rfl⟩
    | bitfield o w => cases o with
      | some n => exact .inl ⟨n, _, rfl⟩
      | none => exact .inr ⟨_, rfl⟩
  | d :: d' :: ds', _ => cases d with
    | plain n => exact .inl ⟨n, _, rfl⟩
    | bitfield o w => cases o with
      | some n => exact .inl ⟨n, _, rfl⟩
      | none => exact .inr ⟨_, rfl⟩

theorem member_pp (m : M) (rest : List Tok) (h : accM m = true) : member (ppM m ++ rest) = some (m, rest) := by
  cases m with
  | incomplete ss =>
    simp only [accM, Bool.not_eq_true', List.isEmpty_eq_false_iff] at h
    have hs := specs_pp ss (.semi :: rest) trivial
    match ss, h, hs with
    | s :: ss', _, hs => simp only [ppM, List.append_assoc, List.cons_append, List.nil_append, member, hs]
  | field ss ds =>
    simp only [accM, Bool.and_eq_true, Bool.not_eq_true', List.isEmpty_eq_false_iff] at h
    have hm := mds_pp ds rest h.2
    rcases ppMDs_head ds h.2 rest with ⟨n, r, hr⟩ | ⟨r, hr⟩
    · have hs := specs_pp ss (ppMDs ds ++ rest) (by rw [hr]; trivial)
      match ss, h.1, hs with
      | s :: ss', _, hs =>
        simp only [ppM, List.append_assoc, member, hs]
        rw [hr] at hm ⊢
        simp only [hm]
    · have hs := specs_pp ss (ppMDs ds ++ rest) (by rw [hr]; trivial)
      match ss, h.1, hs with
      | s :: ss', _, hs =>
        simp only [ppM, List.append_assoc, member, hs]
        rw [hr] at hm ⊢
        simp only [hm]

theorem member_sound (ts : List Tok) (m : M) (r : List Tok) (h : member ts = some (m, r)) : ts = ppM m ++ r ∧ accM m = true := by
  have hs := specs_sound ts
  unfold member at h
  rcases hsp : specs ts with ⟨ss, r0⟩
  rw [hsp] at h hs
  simp only at hs
  cases ss with
  | nil => simp at h
  | cons a b =>
    by_cases hsemi : ∃ r1, r0 = .semi :: r1
    · obtain ⟨r1, rfl⟩ := hsemi
      simp only [Option.some.injEq, Prod.mk.injEq] at h
      obtain ⟨rfl, rfl⟩ := h
      exact ⟨by rw [hs.1]; simp [ppM], rfl⟩
    · cases hm : mds r0 with
      | none =>
        exfalso
        split at h
        · simp_all
        · rename_i heq; exact hsemi ⟨_, (Prod.mk.inj heq).2⟩
        · simp_all
      | some x =>
        obtain ⟨ds, r'⟩ := x
        obtain ⟨h1, h2⟩ := mds_sound _ _ _ hm
        have : (m, r) = (.field (a :: b) ds, r') := by
          split at h
          · simp_all
          · rename_i heq; exact absurd ⟨_, (Prod.mk.inj heq).2⟩ hsemi
          · simp_all
        obtain ⟨rfl, rfl⟩ := Prod.mk.inj this
        refine ⟨by rw [hs.1, h1]; simp [ppM], ?_⟩
        cases ds with
        | nil => exact absurd rfl h2
        | cons c d => rfl

theorem ppM_head (m : M) (h : accM m = true) (X : List Tok) : ∃ n r, ppM m ++ X = .sp n :: r := by
  cases m with
  | incomplete ss =>
    simp only [accM, Bool.not_eq_true', List.isEmpty_eq_false_iff] at h
    match ss, h with
    | s :: ss', _ => exact ⟨s, _, rfl⟩
  | field ss ds =>
    simp only [accM, Bool.and_eq_true, Bool.not_eq_true', List.isEmpty_eq_false_iff] at h
    match ss, h.1 with
    | s :: ss', _ => exact ⟨s, _, rfl⟩

theorem members_pp : ∀ (ms : List M) (rest : List Tok) (f : Nat), ms.all accM = true → ms.length < f →
    members f (ppMs ms ++ .rb :: rest) = some (ms, rest)
  | [], rest, f + 1, _, _ => by simp [ppMs, members]
  | m :: ms, rest, f + 1, h, hf => by
    simp only [List.all_cons, Bool.and_eq_true] at h
    have ih := members_pp ms rest f h.2 (by simp at hf; omega)
    obtain ⟨n, r, hr⟩ := ppM_head m h.1 (ppMs ms ++ .rb :: rest)
    have hm := member_pp m (ppMs ms ++ .rb :: rest) h.1
    simp only [ppMs, List.append_assoc]
    rw [hr] at hm ⊢
    simp only [members, hm, ih]
  | _, _, 0, _, hf => by simp at hf

theorem members_sound : ∀ (f : Nat) (ts : List Tok) (ms : List M) (r : List Tok), members f ts = some (ms, r) →
    ts = ppMs ms ++ .rb :: r ∧ ms.all accM = true ∧ ms.length < f := by
  intro f
  induction f with
  | zero => intro ts ms r h; simp [members] at h
  | succ f ih =>
    intro ts ms r h
    by_cases hrb : ∃ r1, ts = .rb :: r1
    · obtain ⟨r1, rfl⟩ := hrb
      simp only [members, Option.some.injEq, Prod.mk.injEq] at h
      obtain ⟨rfl, rfl⟩ := h
      exact ⟨rfl, rfl, by simp⟩
    · have hstep : members (f + 1) ts = (match member ts with
          | some (m, r) => (match members f r with | some (ms, r') => some (m :: ms, r') | none => none)
          | none => none) := by
        match ts, hrb with
        | [], _ => rfl
        | .rb :: t, hrb => exact absurd ⟨t, rfl⟩ hrb
        | .ksu :: _, _ | .kenum :: _, _ | .id _ :: _, _ | .sp _ :: _, _ | .dcl _ :: _, _ | .e _ :: _, _ | .lb :: _, _ | .semi :: _, _
        | .comma :: _, _ | .colon :: _, _ | .eq :: _, _ => rfl
      rw [hstep] at h
      cases hm : member ts with
      | none => simp [hm] at h
      | some x =>
        obtain ⟨m, r0⟩ := x
        simp only [hm] at h
        cases hms : members f r0 with
        | none => simp [hms] at h
        | some y =>
          obtain ⟨ms', r'⟩ := y
          simp only [hms, Option.some.injEq, Prod.mk.injEq] at h
          obtain ⟨rfl, rfl⟩ := h
          obtain ⟨h1, h2⟩ := member_sound _ _ _ hm
          obtain ⟨h3, h4, h5⟩ := ih _ _ _ hms
          refine ⟨by rw [h1, h3]; simp [ppMs], ?_, by simp; omega⟩
          simp only [List.all_cons, Bool.and_eq_true]
          exact ⟨h2, h4⟩

theorem ppEns_cons_head (x : En) (xs : List En) (X : List Tok) : ∃ r, ppEns (x :: xs) ++ X = .id x.name :: r := ⟨_, rfl⟩

theorem enums_pp : ∀ (es : List En) (rest : List Tok), sepd es = true → enums (ppEns es ++ .rb :: rest) = some (es, rest)
  | [], rest, _ => by simp [ppEns, enums]
  | ⟨n, v, c⟩ :: [], rest, _ => by
    cases v <;> cases c <;> simp [ppEns, ppEn, enums]
  | ⟨n, v, c⟩ :: x :: xs, rest, h => by
    simp only [sepd, Bool.and_eq_true] at h
    obtain ⟨hc, hs⟩ := h
    have hc' : c = true := hc
    subst hc' 
    have ih := enums_pp (x :: xs) rest hs
    have e : ppEns (⟨n, v, true⟩ :: x :: xs) ++ .rb :: rest = ppEn ⟨n, v, true⟩ ++ (ppEns (x :: xs) ++ .rb :: rest) := by simp [ppEns]
    rw [e]
    cases v <;> simp [ppEn, enums, ih]

theorem enums_sound : ∀ (ts : List Tok) (es : List En) (r : List Tok), enums ts = some (es, r) →
    ts = ppEns es ++ .rb :: r ∧ sepd es = true := by
  intro ts
  induction ts using enums.induct with
  | case1 r => intro es r0 h; simp only [enums, Option.some.injEq, Prod.mk.injEq] at h; obtain ⟨rfl, rfl⟩ := h; exact ⟨rfl, rfl⟩
  | case2 n v r es' r' hrec ih =>
    intro es r0 h
    simp only [enums, hrec, Option.some.injEq, Prod.mk.injEq] at h
    obtain ⟨rfl, rfl⟩ := h
    obtain ⟨h1, h2⟩ := ih _ _ hrec
    refine ⟨by rw [h1]; simp [ppEns, ppEn], ?_⟩
    cases es' with
    | nil => rfl
    | cons a b => simpa [sepd] using h2
  | case3 n v r hrec ih => intro es r0 h; simp [enums, hrec] at h
  | case4 n v r => intro es r0 h; simp only [enums, Option.some.injEq, Prod.mk.injEq] at h; obtain ⟨rfl, rfl⟩ := h; exact ⟨by simp [ppEns, ppEn], rfl⟩
  | case5 n r es' r' hrec ih =>
    intro es r0 h
    simp only [enums, hrec, Option.some.injEq, Prod.mk.injEq] at h
    obtain ⟨rfl, rfl⟩ := h
    obtain ⟨h1, h2⟩ := ih _ _ hrec
    refine ⟨by rw [h1]; simp [ppEns, ppEn], ?_⟩
    cases es' with
    | nil => rfl
    | cons a b => simpa [sepd] using h2
  | case6 n r hrec ih => intro es r0 h; simp [enums, hrec] at h
  | case7 n r => intro es r0 h; simp only [enums, Option.some.injEq, Prod.mk.injEq] at h; obtain ⟨rfl, rfl⟩ := h; exact ⟨by simp [ppEns, ppEn], rfl⟩
  | case8 t h1 h2 h3 h4 h5 =>
    intro es r0 h
    unfold enums at h
    split at h <;> simp_all

/-- the following tokens do not begin a body -/
def NoLb : List Tok → Prop
  | .lb :: _ => False
  | _ => True

theorem tag_pp (t : T) (rest : List Tok) (f : Nat) (hacc : acc t = true)
    (hf : ∀ tg ms, t = .su tg ms → ms.length < f) (hrest : (∃ tg, t = .suRef tg ∨ t = .enRef tg) → NoLb rest) :
    tag f (pp t ++ rest) = some (t, rest) := by
  cases t with
  | suRef tg =>
    have h := hrest ⟨tg, .inl rfl⟩
    match rest, h with
    | [], _ => rfl
    | .lb :: _, h => exact h.elim
    | .ksu :: _, _ | .kenum :: _, _ | .id _ :: _, _ | .sp _ :: _, _ | .dcl _ :: _, _ | .e _ :: _, _ | .rb :: _, _ | .semi :: _, _
    | .comma :: _, _ | .colon :: _, _ | .eq :: _, _ => rfl
  | enRef tg =>
    have h := hrest ⟨tg, .inr rfl⟩
    match rest, h with
    | [], _ => rfl
    | .lb :: _, h => exact h.elim
    | .ksu :: _, _ | .kenum :: _, _ | .id _ :: _, _ | .sp _ :: _, _ | .dcl _ :: _, _ | .e _ :: _, _ | .rb :: _, _ | .semi :: _, _
    | .comma :: _, _ | .colon :: _, _ | .eq :: _, _ => rfl
  | su tg ms =>
    have hm := members_pp ms rest f (by simpa [acc] using hacc) (hf tg ms rfl)
    cases tg with
    | none => simp only [pp, ppTag, List.nil_append, List.cons_append, List.append_assoc, tag, hm]
    | some n => simp only [pp, ppTag, List.cons_append, List.nil_append, List.append_assoc, tag, hm]
  | en tg es =>
    have he := enums_pp es rest (by simpa [acc] using hacc)
    cases tg with
    | none => simp only [pp, ppTag, List.nil_append, List.cons_append, List.append_assoc, tag, he]
    | some n => simp only [pp, ppTag, List.cons_append, List.nil_append, List.append_assoc, tag, he]

theorem tag_sound (f : Nat) (ts : List Tok) (t : T) (r : List Tok) (h : tag f ts = some (t, r)) : ts = pp t ++ r ∧ acc t = true := by
  unfold tag at h
  split at h
  · split at h
    · rename_i ms r' hm
      simp only [Option.some.injEq, Prod.mk.injEq] at h
      obtain ⟨rfl, rfl⟩ := h
      obtain ⟨h1, h2, _⟩ := members_sound _ _ _ _ hm
      exact ⟨by rw [h1]; simp [pp, ppTag], by simpa [acc] using h2⟩
    · simp at h
  · split at h
    · rename_i ms r' hm
      simp only [Option.some.injEq, Prod.mk.injEq] at h
      obtain ⟨rfl, rfl⟩ := h
      obtain ⟨h1, h2, _⟩ := members_sound _ _ _ _ hm
      exact ⟨by rw [h1]; simp [pp, ppTag], by simpa [acc] using h2⟩
    · simp at h
  · simp only [Option.some.injEq, Prod.mk.injEq] at h
    obtain ⟨rfl, rfl⟩ := h
    exact ⟨by simp [pp], rfl⟩
  · split at h
    · rename_i es r' he
      simp only [Option.some.injEq, Prod.mk.injEq] at h
      obtain ⟨rfl, rfl⟩ := h
      exact ⟨by rw [(enums_sound _ _ _ he).1]; simp [pp, ppTag], by simpa [acc] using (enums_sound _ _ _ he).2⟩
    · simp at h
  · split at h
    · rename_i es r' he
      simp only [Option.some.injEq, Prod.mk.injEq] at h
      obtain ⟨rfl, rfl⟩ := h
      exact ⟨by rw [(enums_sound _ _ _ he).1]; simp [pp, ppTag], by simpa [acc] using (enums_sound _ _ _ he).2⟩
    · simp at h
  · simp only [Option.some.injEq, Prod.mk.injEq] at h
    obtain ⟨rfl, rfl⟩ := h
    exact ⟨by simp [pp], rfl⟩
  · simp at h

/-- more fuel never changes an answer of the member loop -/
theorem members_mono : ∀ (f g : Nat) (ts : List Tok) (x : List M × List Tok), f ≤ g → members f ts = some x → members g ts = some x := by
  intro f g ts x hfg h
  obtain ⟨ms, r⟩ := x
  obtain ⟨h1, h2, h3⟩ := members_sound f ts ms r h
  rw [h1]
  exact members_pp ms r g h2 (by omega)

end PsycheModel.TagBody
