import PsycheModel.Declarators
/-! Helper lemmas for C07: the binder's type stack implements the inside-out reading of a declarator. -/
namespace PsycheModel.Declarators

/-! ### `popTypesUntilNonDerivedDeclaratorType` ignores what a declarator pushes -/

theorem popUntil_ptr (d : Decay) (t : Ty) (s : List Ty) : popUntil (.ptr d t :: s) = popUntil s := by
  simp [popUntil]

theorem popUntil_arr (t : Ty) (s : List Ty) : popUntil (.arr t :: s) = popUntil s := by
  simp [popUntil]

theorem popUntil_fn (r : Ty) (ps : List Ty) (v : Bool) (s : List Ty) : popUntil (.fn r ps v :: s) = popUntil s := by
  simp [popUntil]

theorem popUntil_qual_ptr (q : Quals) (d : Decay) (t : Ty) (s : List Ty) :
    popUntil (.qual q (.ptr d t) :: s) = popUntil s := by
  simp [popUntil, Ty.isDerived]

theorem popUntil_qualify_ptr (qs : List Qual) (d : Decay) (t : Ty) (s : List Ty) :
    popUntil (qualify qs (.ptr d t) :: s) = popUntil s := by
  unfold qualify
  split
  · exact popUntil_ptr ..
  · exact popUntil_qual_ptr ..

/-! ### `visitTypeQualifier` on a pointer type -/

theorem applyQuals_qual_ptr (qs : List Qual) (q : Quals) (d : Decay) (t : Ty) (rest : List Ty) :
    applyQuals qs (.qual q (.ptr d t) :: rest) = some (.qual (qs.foldl Quals.add q) (.ptr d t) :: rest) := by
  induction qs generalizing q with
  | nil => rfl
  | cons k ks ih =>
    simp only [applyQuals, applyQual, Ty.isPtr, Bool.not_true, Bool.and_false, Bool.false_eq_true, if_false,
      Option.bind_some, List.foldl_cons]
    exact ih _

theorem applyQuals_ptr (qs : List Qual) (d : Decay) (t : Ty) (rest : List Ty) :
    applyQuals qs (.ptr d t :: rest) = some (qualify qs (.ptr d t) :: rest) := by
  cases qs with
  | nil => rfl
  | cons k ks =>
    simp only [applyQuals, applyQual, Ty.isPtr, Bool.not_true, Bool.and_false, Bool.false_eq_true, if_false,
      Option.bind_some, qualify, List.isEmpty_cons, List.foldl_cons]
    exact applyQuals_qual_ptr ..

/-! ### the one fact about the stack the array-parameter adjustment relies on -/

/-- an array type at the top lies directly on its element type -/
def TopOK (st : List Ty) : Prop := ∀ e rest, st = .arr e :: rest → ∃ r, rest = e :: r

theorem topOK_arr (t : Ty) (s : List Ty) : TopOK (.arr t :: t :: s) := by
  intro e rest h
  injection h with h1 h2
  injection h1 with h1
  exact ⟨s, by rw [← h2, h1]⟩

theorem topOK_of_not_arr {t : Ty} {s : List Ty} (h : ∀ e, t ≠ .arr e) : TopOK (t :: s) := by
  intro e rest he
  injection he with h1 _
  exact absurd h1 (h e)

theorem topOK_qualify_ptr (qs : List Qual) (d : Decay) (t : Ty) (s : List Ty) : TopOK (qualify qs (.ptr d t) :: s) := by
  apply topOK_of_not_arr
  intro e
  unfold qualify
  split <;> simp

theorem topOK_fn (r : Ty) (ps : List Ty) (v : Bool) (s : List Ty) : TopOK (.fn r ps v :: s) :=
  topOK_of_not_arr (by intro e; simp)

/-! ### leaves -/

theorem handleLeaf_spec (ctx : Ctx) (T : Ty) (rest : List Ty) (hok : TopOK (T :: rest)) :
    ∃ st1, handleLeaf ctx (T :: rest) = some (st1, ctx.kindOf (ctx.adj T)) ∧ st1.head? = some (ctx.adj T) ∧
      popUntil st1 = popUntil (T :: rest) := by
  cases ctx with
  | object => exact ⟨_, rfl, rfl, rfl⟩
  | member => exact ⟨_, rfl, rfl, rfl⟩
  | typedef => exact ⟨_, rfl, rfl, rfl⟩
  | param =>
    cases T with
    | base s => exact ⟨_, rfl, rfl, rfl⟩
    | qual q t => exact ⟨_, rfl, rfl, rfl⟩
    | ptr d t => exact ⟨_, rfl, rfl, rfl⟩
    | arr e =>
      obtain ⟨r, hr⟩ := hok e rest rfl
      subst hr
      exact ⟨_, rfl, rfl, by simp [popUntil]⟩
    | fn r ps v => exact ⟨_, rfl, rfl, by simp [popUntil]⟩

/-! ### the visitor computes `denote` -/

mutual
theorem visitD_spec (ctx : Ctx) : ∀ (d : Decl) (T : Ty) (rest : List Ty), TopOK (T :: rest) →
    ∃ st1, visitD ctx d (T :: rest) =
        some (st1, ctx.kindOf (ctx.adj (denote d T).2), (denote d T).1, nestedOf d T) ∧
      st1.head? = some (ctx.adj (denote d T).2) ∧ popUntil st1 = popUntil (T :: rest)
  | .ident n, T, rest, hok => by
    obtain ⟨st1, h1, h2, h3⟩ := handleLeaf_spec ctx T rest hok
    exact ⟨st1, by simp [visitD, h1, denote, nestedOf], by simpa [denote] using h2, h3⟩
  | .abstract, T, rest, hok => by
    obtain ⟨st1, h1, h2, h3⟩ := handleLeaf_spec ctx T rest hok
    exact ⟨st1, by simp [visitD, h1, denote, nestedOf], by simpa [denote] using h2, h3⟩
  | .paren d, T, rest, hok => by
    simpa [visitD, denote, nestedOf] using visitD_spec ctx d T rest hok
  | .bitfield d, T, rest, hok => by
    simpa [visitD, denote, nestedOf] using visitD_spec ctx d T rest hok
  | .ptr qs d, T, rest, _ => by
    obtain ⟨st1, h1, h2, h3⟩ := visitD_spec ctx d (qualify qs (.ptr .none T)) (T :: rest) (topOK_qualify_ptr _ _ _ _)
    refine ⟨st1, ?_, by simpa [denote] using h2, ?_⟩
    · simp [visitD, applyQuals_ptr, denote, nestedOf, h1]
    · rw [h3, popUntil_qualify_ptr]
  | .arr d, T, rest, _ => by
    obtain ⟨st1, h1, h2, h3⟩ := visitD_spec ctx d (.arr T) (T :: rest) (topOK_arr _ _)
    refine ⟨st1, ?_, by simpa [denote] using h2, ?_⟩
    · simp [visitD, denote, nestedOf, h1]
    · rw [h3, popUntil_arr]
  | .fn d ps ell, T, rest, _ => by
    have hp := visitPs_spec ps
    obtain ⟨st1, h1, h2, h3⟩ := visitD_spec ctx d (.fn T (denotePs ps) ell) (T :: rest) (topOK_fn _ _ _ _)
    refine ⟨st1, ?_, by simpa [denote] using h2, ?_⟩
    · simp [visitD, denote, nestedOf, hp, h1]
    · rw [h3, popUntil_fn]
theorem visitPs_spec : ∀ (ps : Params), visitPs ps = some (denotePs ps, symsOfPs ps)
  | .nil => rfl
  | .cons base d rest => by
    obtain ⟨st1, h1, h2, _⟩ := visitD_spec .param d (.base base) [] (topOK_of_not_arr (by intro e; simp))
    have hr := visitPs_spec rest
    cases st1 with
    | nil => simp at h2
    | cons ty tl =>
      simp only [List.head?_cons, Option.some.injEq] at h2
      subst h2
      simp [visitPs, h1, hr, denotePs, symsOfPs, Ctx.adj, Ctx.kindOf]
end

end PsycheModel.Declarators
