import PsycheModel.Stmt
/-! Helper lemmas for the statement parser model: fuel monotonicity and the round trip. -/
namespace PsycheModel.Stmt

/-- results with fuel `f` persist with fuel `g` -/
structure Le (f g : Nat) : Prop where
  stmt : ∀ ts x, stmt f ts = some x → stmt g ts = some x
  items : ∀ ts x, items f ts = some x → items g ts = some x

syntax "stmt_mono_case " ident : tactic
set_option hygiene false in
macro_rules
  | `(tactic| stmt_mono_case $ih) => `(tactic| (
      repeat' (split at h)
      all_goals (try (simp at h; done))
      all_goals (have hS := ($ih).stmt; have hI := ($ih).items)
      all_goals (grind)))

theorem le_succ {f g : Nat} (ih : Le f g) : Le (f + 1) (g + 1) := by
  constructor
  · intro ts x h
    simp only [Stmt.stmt] at h ⊢
    stmt_mono_case ih
  · intro ts x h
    simp only [Stmt.items] at h ⊢
    stmt_mono_case ih

theorem le_rfl_fuel (f : Nat) : Le f f := by constructor <;> intros <;> assumption
theorem le_zero (g : Nat) : Le 0 g := by constructor <;> intros <;> simp_all [Stmt.stmt, Stmt.items]
theorem le_add (f k : Nat) : Le f (f + k) := by
  induction f with
  | zero => exact le_zero _
  | succ f ih => have := le_succ ih; rwa [Nat.add_right_comm] at this
theorem le_of_le {f g : Nat} (h : f ≤ g) : Le f g := by
  obtain ⟨k, rfl⟩ := Nat.exists_eq_add_of_le h
  exact le_add f k

/-- what a printed statement starts with: never `}`, `else`, `)` or `:` -/
def Starts : List Tok → Prop
  | [] | .rbrace :: _ | .kelse :: _ | .rp :: _ | .colon :: _ => False
  | _ => True

theorem pp_starts (s : S) (X : List Tok) : Starts (pp s ++ X) := by
  cases s with
  | for_ i c k b => simp [pp, Starts]
  | do_ b c => simp [pp, Starts]
  | ret v => simp [pp, Starts]
  | expr _ | empty | decl _ | block _ | ite _ _ | itel _ _ _ | sw _ _ | case _ _ | dflt _ | label _ _ | while_ _ _ | goto _ | cont | brk =>
    simp [pp, Starts]

theorem noElse_of_starts {ts : List Tok} (h : Starts ts) : NoElse ts := by
  match ts, h with
  | [], h => exact h.elim
  | .kelse :: _, h => exact h.elim
  | .e _ :: _, _ | .d _ :: _, _ | .id _ :: _, _ | .semi :: _, _ | .lbrace :: _, _ | .lp :: _, _ | .kif :: _, _ | .kswitch :: _, _
  | .kcase :: _, _ | .kdefault :: _, _ | .kwhile :: _, _ | .kdo :: _, _ | .kfor :: _, _ | .kgoto :: _, _ | .kcontinue :: _, _
  | .kbreak :: _, _ | .kreturn :: _, _ => trivial
  | .rbrace :: _, h | .rp :: _, h | .colon :: _, h => exact h.elim

theorem forHead_pp (i : Init) (c k : Option Nat) (X : List Tok) :
    forHead (ppInit i ++ (ppOpt c ++ .semi :: (ppOpt k ++ .rp :: X))) = some (i, c, k, X) := by
  cases i <;> cases c <;> cases k <;> simp [forHead, ppInit, ppOpt]

mutual
/-- the round trip, statements -/
theorem rt : ∀ (s : S) (rest : List Tok), ok s = true → (openEnd s = true → NoElse rest) →
    ∃ f, stmt f (pp s ++ rest) = some (s, rest)
  | .expr n, rest, _, _ => ⟨1, by simp [pp, Stmt.stmt]⟩
  | .empty, rest, _, _ => ⟨1, by simp [pp, Stmt.stmt]⟩
  | .decl n, rest, _, _ => ⟨1, by simp [pp, Stmt.stmt]⟩
  | .goto l, rest, _, _ => ⟨1, by simp [pp, Stmt.stmt]⟩
  | .cont, rest, _, _ => ⟨1, by simp [pp, Stmt.stmt]⟩
  | .brk, rest, _, _ => ⟨1, by simp [pp, Stmt.stmt]⟩
  | .ret none, rest, _, _ => ⟨1, by simp [pp, ppOpt, Stmt.stmt]⟩
  | .ret (some v), rest, _, _ => ⟨1, by simp [pp, ppOpt, Stmt.stmt]⟩
  | .block xs, rest, hok, _ => by
    obtain ⟨f, hf⟩ := rtItems xs rest (by simpa [ok] using hok)
    exact ⟨f + 1, by simp only [pp, List.cons_append, List.append_assoc, List.nil_append, Stmt.stmt]; rw [hf]⟩
  | .ite c t, rest, hok, hne => by
    have hn : NoElse rest := hne rfl
    obtain ⟨f, hf⟩ := rt t rest (by simpa [ok] using hok) (fun _ => hn)
    refine ⟨f + 1, ?_⟩
    simp only [pp, List.cons_append, Stmt.stmt]
    rw [hf]
    match rest, hn with
    | [], _ => rfl
    | .kelse :: _, h => exact h.elim
    | .e _ :: _, _ | .d _ :: _, _ | .id _ :: _, _ | .semi :: _, _ | .lbrace :: _, _ | .lp :: _, _ | .kif :: _, _ | .kswitch :: _, _
    | .kcase :: _, _ | .kdefault :: _, _ | .kwhile :: _, _ | .kdo :: _, _ | .kfor :: _, _ | .kgoto :: _, _ | .kcontinue :: _, _
    | .kbreak :: _, _ | .kreturn :: _, _ | .rbrace :: _, _ | .rp :: _, _ | .colon :: _, _ => rfl
  | .itel c t el, rest, hok, hne => by
    simp only [ok, Bool.and_eq_true, Bool.not_eq_true'] at hok
    obtain ⟨⟨hopen, hokt⟩, hokel⟩ := hok
    obtain ⟨f1, h1⟩ := rt t (.kelse :: (pp el ++ rest)) hokt (fun h => by rw [hopen] at h; cases h)
    obtain ⟨f2, h2⟩ := rt el rest hokel (fun h => hne (by simpa [openEnd] using h))
    refine ⟨max f1 f2 + 1, ?_⟩
    have h1' := (le_of_le (Nat.le_max_left f1 f2)).stmt _ _ h1
    have h2' := (le_of_le (Nat.le_max_right f1 f2)).stmt _ _ h2
    simp only [pp, List.cons_append, List.append_assoc, Stmt.stmt]
    rw [h1']
    simp only []
    rw [h2']
  | .sw c b, rest, hok, hne => by
    obtain ⟨f, hf⟩ := rt b rest (by simpa [ok] using hok) (fun h => hne (by simpa [openEnd] using h))
    exact ⟨f + 1, by simp only [pp, List.cons_append, Stmt.stmt]; rw [hf]⟩
  | .case c b, rest, hok, hne => by
    obtain ⟨f, hf⟩ := rt b rest (by simpa [ok] using hok) (fun h => hne (by simpa [openEnd] using h))
    exact ⟨f + 1, by simp only [pp, List.cons_append, Stmt.stmt]; rw [hf]⟩
  | .dflt b, rest, hok, hne => by
    obtain ⟨f, hf⟩ := rt b rest (by simpa [ok] using hok) (fun h => hne (by simpa [openEnd] using h))
    exact ⟨f + 1, by simp only [pp, List.cons_append, Stmt.stmt]; rw [hf]⟩
  | .label l b, rest, hok, hne => by
    obtain ⟨f, hf⟩ := rt b rest (by simpa [ok] using hok) (fun h => hne (by simpa [openEnd] using h))
    exact ⟨f + 1, by simp only [pp, List.cons_append, Stmt.stmt]; rw [hf]⟩
  | .while_ c b, rest, hok, hne => by
    obtain ⟨f, hf⟩ := rt b rest (by simpa [ok] using hok) (fun h => hne (by simpa [openEnd] using h))
    exact ⟨f + 1, by simp only [pp, List.cons_append, Stmt.stmt]; rw [hf]⟩
  | .do_ b c, rest, hok, _ => by
    obtain ⟨f, hf⟩ := rt b (.kwhile :: .lp :: .e c :: .rp :: .semi :: rest) (by simpa [ok] using hok) (fun _ => trivial)
    exact ⟨f + 1, by simp only [pp, List.cons_append, List.append_assoc, List.nil_append, Stmt.stmt]; rw [hf]⟩
  | .for_ i c k b, rest, hok, hne => by
    obtain ⟨f, hf⟩ := rt b rest (by simpa [ok] using hok) (fun h => hne (by simpa [openEnd] using h))
    refine ⟨f + 1, ?_⟩
    simp only [pp, List.cons_append, List.append_assoc, Stmt.stmt]
    rw [forHead_pp]
    simp only []
    rw [hf]
/-- … and the items of a compound statement up to its closing brace -/
theorem rtItems : ∀ (xs : List S) (rest : List Tok), okItems xs = true →
    ∃ f, items f (ppItems xs ++ .rbrace :: rest) = some (xs, rest)
  | [], rest, _ => ⟨1, by simp [ppItems, Stmt.items]⟩
  | s :: xs, rest, hok => by
    simp only [okItems, Bool.and_eq_true] at hok
    have hst := pp_starts s (ppItems xs ++ .rbrace :: rest)
    obtain ⟨f1, h1⟩ := rt s (ppItems xs ++ .rbrace :: rest) hok.1 (fun _ => by
      cases xs with
      | nil => trivial
      | cons y ys => exact noElse_of_starts (by simpa [ppItems] using pp_starts y (ppItems ys ++ .rbrace :: rest)))
    obtain ⟨f2, h2⟩ := rtItems xs rest hok.2
    refine ⟨max f1 f2 + 1, ?_⟩
    have h1' := (le_of_le (Nat.le_max_left f1 f2)).stmt _ _ h1
    have h2' := (le_of_le (Nat.le_max_right f1 f2)).items _ _ h2
    simp only [ppItems, List.append_assoc]
    match hts : pp s ++ (ppItems xs ++ .rbrace :: rest), hst with
    | t :: tl, hst' =>
      cases t <;> first
        | exact hst'.elim
        | (simp only [Stmt.items]; rw [← hts, h1']; simp only []; rw [h2'])
end

end PsycheModel.Stmt
