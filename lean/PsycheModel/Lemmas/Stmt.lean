import PsycheModel.Stmt
/-! Helper lemmas for the statement parser model: fuel monotonicity and the round trip. -/
namespace PsycheModel.Stmt

/-- results with fuel `f` persist with fuel `g` -/
structure Le (f g : Nat) : Prop where
  stmt : ∀ ts x, stmt f ts = some x → stmt g ts = some x
  items : ∀ ts x, items f ts = some x → items g ts = some x

syntax "stmt_mono_case " ident : tactic
set_option hygiene false in
macro_rules
  | `(tactic| stmt_mono_case $ih) => `(tactic| (
      repeat' (split at h)
      all_goals (try (simp at h; done))
      all_goals (have hS := ($ih).stmt; have hI := ($ih).items)
      all_goals (grind)))

theorem le_succ {f g : Nat} (ih : Le f g) : Le (f + 1) (g + 1) := by
  constructor
  · intro ts x h
    simp only [Stmt.stmt] at h ⊢
    stmt_mono_case ih
  · intro ts x h
    simp only [Stmt.items] at h ⊢
    stmt_mono_case ih

theorem le_rfl_fuel (f : Nat) : Le f f := by constructor <;> intros <;> assumption
theorem le_zero (g : Nat) : Le 0 g := by constructor <;> intros <;> simp_all [Stmt.stmt, Stmt.items]
theorem le_add (f k : Nat) : Le f (f + k) := by
  induction f with
  | zero => exact le_zero _
  | succ f ih => have := le_succ ih; rwa [Nat.add_right_comm] at this
theorem le_of_le {f g : Nat} (h : f ≤ g) : Le f g := by
  obtain ⟨k, rfl⟩ := Nat.exists_eq_add_of_le h
  exact le_add f k

/-- what a printed statement starts with: never `}`, `else`, `)` or `:` -/
def Starts : List Tok → Prop
  | [] | .rbrace :: _ | .kelse :: _ | .rp :: _ | .colon :: _ => False
  | _ => True

theorem pp_starts (s : S) (X : List Tok) : Starts (pp s ++ X) := by
  cases s with
  | for_ i c k b => simp [pp, Starts]
  | do_ b c => simp [pp, Starts]
  | ret v => simp [pp, Starts]
  | expr _ | empty | decl _ | block _ | ite _ _ | itel _ _ _ | sw _ _ | case _ _ | dflt _ | label _ _ | while_ _ _ | goto _ | cont | brk =>
    simp [pp, Starts]

theorem noElse_of_starts {ts : List Tok} (h : Starts ts) : NoElse ts := by
  match ts, h with
  | [], h => exact h.elim
  | .kelse :: _, h => exact h.elim
  | .e _ :: _, _ | .d _ :: _, _ | .id _ :: _, _ | .semi :: _, _ | .lbrace :: _, _ | .lp :: _, _ | .kif :: _, _ | .kswitch :: _, _
  | .kcase :: _, _ | .kdefault :: _, _ | .kwhile :: _, _ | .kdo :: _, _ | .kfor :: _, _ | .kgoto :: _, _ | .kcontinue :: _, _
  | .kbreak :: _, _ | .kreturn :: _, _ => trivial
  | .rbrace :: _, h | .rp :: _, h | .colon :: _, h => exact h.elim

theorem forHead_pp (i : Init) (c k : Option Nat) (X : List Tok) :
    forHead (ppInit i ++ (ppOpt c ++ .semi :: (ppOpt k ++ .rp :: X))) = some (i, c, k, X) := by
  cases i <;> cases c <;> cases k <;> simp [forHead, ppInit, ppOpt]

mutual
/-- the round trip, statements -/
theorem rt : ∀ (s : S) (rest : List Tok), ok s = true → (openEnd s = true → NoElse rest) →
    ∃ f, stmt f (pp s ++ rest) = some (s, rest)
  | .expr n, rest, _, _ => ⟨1, by simp [pp, Stmt.stmt]⟩
  | .empty, rest, _, _ => ⟨1, by simp [pp, Stmt.stmt]⟩
  | .decl n, rest, _, _ => ⟨1, by simp [pp, Stmt.stmt]⟩
  | .goto l, rest, _, _ => ⟨1, by simp [pp, Stmt.stmt]⟩
  | .cont, rest, _, _ => ⟨1, by simp [pp, Stmt.stmt]⟩
  | .brk, rest, _, _ => ⟨1, by simp [pp, Stmt.stmt]⟩
  | .ret none, rest, _, _ => ⟨1, by simp [pp, ppOpt, Stmt.stmt]⟩
  | .ret (some v), rest, _, _ => ⟨1, by simp [pp, ppOpt, Stmt.stmt]⟩
  | .block xs, rest, hok, _ => by
    obtain ⟨f, hf⟩ := rtItems xs rest (by simpa [ok] using hok)
    exact ⟨f + 1, by simp only [pp, List.cons_append, List.append_assoc, List.nil_append, Stmt.stmt]; rw [hf]⟩
  | .ite c t, rest, hok, hne => by
    have hn : NoElse rest := hne rfl
    obtain ⟨f, hf⟩ := rt t rest (by simpa [ok] using hok) (fun _ => hn)
    refine ⟨f + 1, ?_⟩
    simp only [pp, List.cons_append, Stmt.stmt]
    rw [hf]
    match rest, hn with
    | [], _ => rfl
    | .kelse :: _, h => exact h.elim
    | .e _ :: _, _ | .d _ :: _, _ | .id _ :: _, _ | .semi :: _, _ | .lbrace :: _, _ | .lp :: _, _ | .kif :: _, _ | .kswitch :: _, _
    | .kcase :: _, _ | .kdefault :: _, _ | .kwhile :: _, _ | .kdo :: _, _ | .kfor :: _, _ | .kgoto :: _, _ | .kcontinue :: _, _
    | .kbreak :: _, _ | .kreturn :: _, _ | .rbrace :: _, _ | .rp :: _, _ | .colon :: _, _ => rfl
  | .itel c t el, rest, hok, hne => by
    simp only [ok, Bool.and_eq_true, Bool.not_eq_true'] at hok
    obtain ⟨⟨hopen, hokt⟩, hokel⟩ := hok
    obtain ⟨f1, h1⟩ := rt t (.kelse :: (pp el ++ rest)) hokt (fun h => by rw [hopen] at h; cases h)
    obtain ⟨f2, h2⟩ := rt el rest hokel (fun h => hne (by simpa [openEnd] using h))
    refine ⟨max f1 f2 + 1, ?_⟩
    have h1' := (le_of_le (Nat.le_max_left f1 f2)).stmt _ _ h1
    have h2' := (le_of_le (Nat.le_max_right f1 f2)).stmt _ _ h2
    simp only [pp, List.cons_append, List.append_assoc, Stmt.stmt]
    rw [h1']
    simp only []
    rw [h2']
  | .sw c b, rest, hok, hne => by
    obtain ⟨f, hf⟩ := rt b rest (by simpa [ok] using hok) (fun h => hne (by simpa [openEnd] using h))
    exact ⟨f + 1, by simp only [pp, List.cons_append, Stmt.stmt]; rw [hf]⟩
  | .case c b, rest, hok, hne => by
    obtain ⟨f, hf⟩ := rt b rest (by simpa [ok] using hok) (fun h => hne (by simpa [openEnd] using h))
    exact ⟨f + 1, by simp only [pp, List.cons_append, Stmt.stmt]; rw [hf]⟩
  | .dflt b, rest, hok, hne => by
    obtain ⟨f, hf⟩ := rt b rest (by simpa [ok] using hok) (fun h => hne (by simpa [openEnd] using h))
    exact ⟨f + 1, by simp only [pp, List.cons_append, Stmt.stmt]; rw [hf]⟩
  | .label l b, rest, hok, hne => by
    obtain ⟨f, hf⟩ := rt b rest (by simpa [ok] using hok) (fun h => hne (by simpa [openEnd] using h))
    exact ⟨f + 1, by simp only [pp, List.cons_append, Stmt.stmt]; rw [hf]⟩
  | .while_ c b, rest, hok, hne => by
    obtain ⟨f, hf⟩ := rt b rest (by simpa [ok] using hok) (fun h => hne (by simpa [openEnd] using h))
    exact ⟨f + 1, by simp only [pp, List.cons_append, Stmt.stmt]; rw [hf]⟩
  | .do_ b c, rest, hok, _ => by
    obtain ⟨f, hf⟩ := rt b (.kwhile :: .lp :: .e c :: .rp :: .semi :: rest) (by simpa [ok] using hok) (fun _ => trivial)
    exact ⟨f + 1, by simp only [pp, List.cons_append, List.append_assoc, List.nil_append, Stmt.stmt]; rw [hf]⟩
  | .for_ i c k b, rest, hok, hne => by
    obtain ⟨f, hf⟩ := rt b rest (by simpa [ok] using hok) (fun h => hne (by simpa [openEnd] using h))
    refine ⟨f + 1, ?_⟩
    simp only [pp, List.cons_append, List.append_assoc, Stmt.stmt]
    rw [forHead_pp]
    simp only []
    rw [hf]
/-- … and the items of a compound statement up to its closing brace -/
theorem rtItems : ∀ (xs : List S) (rest : List Tok), okItems xs = true →
    ∃ f, items f (ppItems xs ++ .rbrace :: rest) = some (xs, rest)
  | [], rest, _ => ⟨1, by simp [ppItems, Stmt.items]⟩
  | s :: xs, rest, hok => by
    simp only [okItems, Bool.and_eq_true] at hok
    have hst := pp_starts s (ppItems xs ++ .rbrace :: rest)
    obtain ⟨f1, h1⟩ := rt s (ppItems xs ++ .rbrace :: rest) hok.1 (fun _ => by
      cases xs with
      | nil => trivial
      | cons y ys => exact noElse_of_starts (by simpa [ppItems] using pp_starts y (ppItems ys ++ .rbrace :: rest)))
    obtain ⟨f2, h2⟩ := rtItems xs rest hok.2
    refine ⟨max f1 f2 + 1, ?_⟩
    have h1' := (le_of_le (Nat.le_max_left f1 f2)).stmt _ _ h1
    have h2' := (le_of_le (Nat.le_max_right f1 f2)).items _ _ h2
    simp only [ppItems, List.append_assoc]
    match hts : pp s ++ (ppItems xs ++ .rbrace :: rest), hst with
    | t :: tl, hst' =>
      cases t <;> first
        | exact hst'.elim
        | (simp only [Stmt.items]; rw [← hts, h1']; simp only []; rw [h2'])
end

/-! ### consumption and the fuel bound -/
theorem forHead_sound {ts : List Tok} {i c k r} (h : forHead ts = some (i, c, k, r)) :
    ts = ppInit i ++ (ppOpt c ++ .semi :: (ppOpt k ++ .rp :: r)) := by
  unfold forHead at h
  split at h <;> first
    | (simp at h; obtain ⟨rfl, rfl, rfl, rfl⟩ := h; simp [ppInit, ppOpt])
    | simp at h

theorem forHead_consumes {ts : List Tok} {i c k r} (h : forHead ts = some (i, c, k, r)) : r.length + 3 ≤ ts.length := by
  rw [forHead_sound h]
  cases i <;> cases c <;> cases k <;> simp [ppInit, ppOpt] <;> omega

/-- a successful parse consumes at least one token -/
structure Cons (f : Nat) : Prop where
  stmt : ∀ ts s rest, stmt f ts = some (s, rest) → rest.length < ts.length
  items : ∀ ts xs rest, items f ts = some (xs, rest) → rest.length < ts.length

theorem cons_all : ∀ f, Cons f := by
  intro f
  induction f with
  | zero => constructor <;> intros <;> simp_all [Stmt.stmt, Stmt.items]
  | succ f ih =>
    constructor
    · intro ts s rest h
      simp only [Stmt.stmt] at h
      repeat' (split at h)
      all_goals (try (simp at h; done))
      all_goals (have hS := ih.stmt; have hI := ih.items; have hF := @forHead_consumes)
      all_goals (first
        | grind
        | (simp at h; obtain ⟨_, rfl⟩ := h; have := hS _ _ _ ‹stmt _ _ = some _›; simp at this ⊢; omega))
    · intro ts xs rest h
      simp only [Stmt.items] at h
      repeat' (split at h)
      all_goals (try (simp at h; done))
      all_goals (have hS := ih.stmt; have hI := ih.items)
      all_goals (grind)

theorem bound_step_stmt (n f g : Nat)
    (hS : ∀ r x, r.length ≤ n → stmt f r = some x → stmt g r = some x)
    (hI : ∀ r x, r.length ≤ n → items f r = some x → items g r = some x) :
    ∀ ts x, ts.length ≤ n + 1 → stmt (f + 1) ts = some x → stmt (g + 1) ts = some x := by
  have hC := (cons_all f).stmt
  have hCI := (cons_all f).items
  have hF := @forHead_consumes
  intro ts x hl h
  simp only [Stmt.stmt] at h ⊢
  repeat' (split at h)
  all_goals (try (simp at h; done))
  all_goals (grind)

theorem bound_step_items (n f g : Nat)
    (hS : ∀ ts x, ts.length ≤ n + 1 → stmt f ts = some x → stmt g ts = some x)
    (hI : ∀ r x, r.length ≤ n → items f r = some x → items g r = some x) :
    ∀ ts x, ts.length ≤ n + 1 → items (f + 1) ts = some x → items (g + 1) ts = some x := by
  have hC := (cons_all f).stmt
  intro ts x hl h
  simp only [Stmt.items] at h ⊢
  repeat' (split at h)
  all_goals (try (simp at h; done))
  all_goals (grind)

/-- **the recursion depth is bounded by the number of tokens**: whatever some fuel yields, fuel `2 · length + 1` yields
(`2 · length + 2` for the items of a compound statement) -/
theorem fuel_bound : ∀ n,
    (∀ ts : List Tok, ts.length ≤ n → ∀ f x, stmt f ts = some x → stmt (2 * n + 1) ts = some x) ∧
    (∀ ts : List Tok, ts.length ≤ n → ∀ f x, items f ts = some x → items (2 * n + 2) ts = some x) := by
  intro n
  induction n with
  | zero =>
    constructor
    · intro ts hl f x h
      have : ts = [] := List.eq_nil_of_length_eq_zero (by omega)
      subst this
      cases f <;> simp [Stmt.stmt] at h
    · intro ts hl f x h
      have : ts = [] := List.eq_nil_of_length_eq_zero (by omega)
      subst this
      cases f <;> simp [Stmt.items] at h
  | succ n ih =>
    obtain ⟨ihS, ihI⟩ := ih
    have hstmt : ∀ ts : List Tok, ts.length ≤ n + 1 → ∀ f x, stmt f ts = some x → stmt (2 * (n + 1) + 1) ts = some x := by
      intro ts hl f x h
      cases f with
      | zero => simp [Stmt.stmt] at h
      | succ f =>
        have := bound_step_stmt n f (2 * n + 2)
          (fun r x hr h => (le_of_le (by omega : 2 * n + 1 ≤ 2 * n + 2)).stmt _ _ (ihS r hr f x h))
          (fun r x hr h => ihI r hr f x h) ts x hl h
        simpa [Nat.mul_add] using this
    refine ⟨hstmt, ?_⟩
    intro ts hl f x h
    cases f with
    | zero => simp [Stmt.items] at h
    | succ f =>
      have := bound_step_items n f (2 * n + 3)
        (fun ts x hl h => by have := hstmt ts hl f x h; simpa [Nat.mul_add] using this)
        (fun r x hr h => (le_of_le (by omega : 2 * n + 2 ≤ 2 * n + 3)).items _ _ (ihI r hr f x h)) ts x hl h
      simpa [Nat.mul_add] using this

end PsycheModel.Stmt
