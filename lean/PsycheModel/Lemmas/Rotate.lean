import PsycheModel.Rotate
/-! Helper lemmas for the re-association theorem (Props/C06.lean): the invariant of the slot function. -/
namespace PsycheModel.Rotate
variable (prec : Nat → Nat)

theorem CS_mono {c c' : Nat} {e : X} (h : c ≤ c') (hc : CS prec c' e) : CS prec c e := by
  cases hc with
  | atom => exact .atom
  | un ho he => exact .un ho he
  | bin hp hl hr => exact .bin (Nat.le_trans h hp) hl hr

/-- an operand without ambiguity is derivable at every level -/
theorem operand_CS : ∀ (e : X) (c : Nat), isOperand e = true → hasAmb e = false → CS prec c e
  | .atom _, _, _, _ => .atom
  | .amb _ _ _, _, _, h => by simp [hasAmb] at h
  | .bin _ _ _, _, h, _ => by simp [isOperand] at h
  | .un u e, c, ho, ha => .un (by simpa [isOperand] using ho) (operand_CS e 0 (by simpa [isOperand] using ho) (by simpa [hasAmb] using ha))

/-- the invariant of the slot function on a subtree the parser built at level `c` -/
def Inv (c : Nat) (t : X) (out : X × Bool) : Prop :=
  seq out.1 = seq t ∧
  (hasAmb t = false → out.2 = false) ∧
  (out.2 = false → CS prec c out.1 ∧ (isOperand t = true → isOperand out.1 = true ∧ hasAmb out.1 = false)) ∧
  (out.2 = true → ∃ o a b, out.1 = .bin o a b ∧ CS prec (max c (prec o)) a ∧ CS prec (max c (prec o + 1)) b ∧
      (isOperand t = true → isOperand a = true ∧ hasAmb a = false ∧ isOperand b = true ∧ hasAmb b = false))

theorem fix_inv : ∀ {c : Nat} {t : X}, PT prec c t → Inv prec c t (fix prec t) := by
  intro c t h
  induction h with
  | atom => exact ⟨rfl, fun _ => rfl, fun _ => ⟨.atom, fun _ => ⟨rfl, rfl⟩⟩, fun h => by simp [fix] at h⟩
  | @amb c o l r hl hal hr har =>
    refine ⟨rfl, fun h => by simp [hasAmb] at h, fun h => by simp [fix] at h, fun _ => ⟨o, l, r, rfl, ?_, ?_, fun _ => ⟨hl, hal, hr, har⟩⟩⟩
    · exact operand_CS prec l _ hl hal
    · exact operand_CS prec r _ hr har
  | @un c u e ho he ih =>
    obtain ⟨ihs, iha, ihf, iht⟩ := ih
    rcases hfe : fix prec e with ⟨e', m⟩
    rw [hfe] at ihs iha ihf iht
    cases m with
    | true =>
      obtain ⟨o, a, b, rfl, _, _, hop⟩ := iht rfl
      obtain ⟨hoa, haa, hob, hab⟩ := hop ho
      have hfix : fix prec (.un u e) = (.bin o (.un u a) b, true) := by simp [fix, hfe]
      rw [hfix]
      refine ⟨?_, ?_, fun h => by simp at h, fun _ => ⟨o, .un u a, b, rfl, ?_, ?_, fun _ => ⟨by simpa [isOperand] using hoa, by simpa [hasAmb] using haa, hob, hab⟩⟩⟩
      · simp only [seq] at ihs ⊢; rw [← ihs]; simp
      · intro h; have := iha (by simpa [hasAmb] using h); simp at this
      · exact operand_CS prec (.un u a) _ (by simpa [isOperand] using hoa) (by simpa [hasAmb] using haa)
      · exact operand_CS prec b _ hob hab
    | false =>
      obtain ⟨hcs, hop⟩ := ihf rfl
      obtain ⟨hoe, hae⟩ := hop ho
      have hfix : fix prec (.un u e) = (.un u e', false) := by
        simp only [fix, hfe]
      rw [hfix]
      refine ⟨by simp only [seq]; rw [← ihs], fun _ => rfl, fun _ => ⟨.un hoe hcs, fun _ => ⟨by simpa [isOperand] using hoe, by simpa [hasAmb] using hae⟩⟩, fun h => by simp at h⟩
  | @bin c p l r hp hl hr hx ihl ihr =>
    obtain ⟨ls, la, lf, lt⟩ := ihl
    obtain ⟨rs, ra, rf, rt⟩ := ihr
    rcases hfl : fix prec l with ⟨l', ml⟩
    rcases hfr : fix prec r with ⟨r', mr⟩
    rw [hfl] at ls la lf lt
    rw [hfr] at rs ra rf rt
    have hnoop : isOperand (X.bin p l r) = true → False := by simp [isOperand]
    cases ml with
    | true =>
      obtain ⟨o, a, b, rfl, hca, hcb, _⟩ := lt rfl
      have hal : hasAmb l = true := by
        cases h : hasAmb l with
        | true => rfl
        | false => have := la h; simp at this
      have har : hasAmb r = false := by simpa [hal] using hx
      have hmr : mr = false := ra har
      subst hmr
      obtain ⟨hcr, _⟩ := rf rfl
      by_cases hpo : prec p > prec o
      · have hfix : fix prec (.bin p l r) = (.bin o a (.bin p b r'), true) := by simp [fix, hfl, hfr, hpo]
        rw [hfix]
        refine ⟨?_, ?_, fun h => by simp at h, fun _ => ⟨o, a, .bin p b r', rfl, ?_, ?_, fun h => (hnoop h).elim⟩⟩
        · simp only [seq] at ls rs ⊢; rw [← ls, ← rs]; simp
        · intro h; simp [hasAmb, hal] at h
        · exact CS_mono prec (by omega) hca
        · exact .bin (by omega) (CS_mono prec (by omega) hcb) hcr
      · have hfix : fix prec (.bin p l r) = (.bin p (.bin o a b) r', false) := by simp [fix, hfl, hfr, hpo]
        rw [hfix]
        refine ⟨?_, fun _ => rfl, fun _ => ⟨?_, fun h => (hnoop h).elim⟩, fun h => by simp at h⟩
        · simp only [seq] at ls rs ⊢; rw [← ls, ← rs]
        · exact .bin hp (.bin (by omega) (CS_mono prec (by omega) hca) (CS_mono prec (by omega) hcb)) hcr
    | false =>
      obtain ⟨hcl, _⟩ := lf rfl
      cases mr with
      | true =>
        obtain ⟨o, a, b, rfl, hca, hcb, _⟩ := rt rfl
        have har : hasAmb r = true := by
          cases h : hasAmb r with
          | true => rfl
          | false => have := ra h; simp at this
        by_cases hpo : prec p ≥ prec o
        · have hfix : fix prec (.bin p l r) = (.bin o (.bin p l' a) b, true) := by simp [fix, hfl, hfr, hpo]
          rw [hfix]
          refine ⟨?_, ?_, fun h => by simp at h, fun _ => ⟨o, .bin p l' a, b, rfl, ?_, ?_, fun h => (hnoop h).elim⟩⟩
          · simp only [seq] at ls rs ⊢; rw [← ls, ← rs]; simp
          · intro h; simp [hasAmb, har] at h
          · exact .bin (by omega) hcl (CS_mono prec (by omega) hca)
          · exact CS_mono prec (by omega) hcb
        · have hfix : fix prec (.bin p l r) = (.bin p l' (.bin o a b), false) := by simp [fix, hfl, hfr, hpo]
          rw [hfix]
          refine ⟨?_, fun _ => rfl, fun _ => ⟨?_, fun h => (hnoop h).elim⟩, fun h => by simp at h⟩
          · simp only [seq] at ls rs ⊢; rw [← ls, ← rs]
          · exact .bin hp hcl (.bin (by omega) (CS_mono prec (by omega) hca) (CS_mono prec (by omega) hcb))
      | false =>
        obtain ⟨hcr, _⟩ := rf rfl
        have hfix : fix prec (.bin p l r) = (.bin p l' r', false) := by simp [fix, hfl, hfr]
        rw [hfix]
        refine ⟨?_, fun _ => rfl, fun _ => ⟨.bin hp hcl hcr, fun h => (hnoop h).elim⟩, fun h => by simp at h⟩
        simp only [seq] at ls rs ⊢; rw [← ls, ← rs]

end PsycheModel.Rotate
