import PsycheModel.Climb
/-! Helper lemmas for C06: fuel monotonicity, spines, the two loop lemmas and the knot. -/
namespace PsycheModel.Climb

/-! ### fuel monotonicity -/
theorem mono (T : Tbl) : ∀ f,
    (∀ base cut ts x, atOp T f base cut ts = some x → atOp T (f+1) base cut ts = some x) ∧
    (∀ next prev ts x, inner T f next prev ts = some x → inner T (f+1) next prev ts = some x) := by
  intro f
  induction f with
  | zero => constructor <;> intros <;> simp_all [atOp, inner]
  | succ f ih =>
    obtain ⟨ihA, ihI⟩ := ih
    constructor
    · intro base cut ts x h
      match ts, h with
      | [], h => simpa [atOp] using h
      | Tok.atom n :: rest, h => simpa [atOp] using h
      | Tok.op o :: [], h =>
        simp only [atOp] at h ⊢
        split at h <;> simp_all
      | Tok.op o :: Tok.op o' :: rest, h =>
        simp only [atOp] at h ⊢
        split at h <;> simp_all
      | Tok.op o :: Tok.atom n :: rest, h =>
        simp only [atOp] at h ⊢
        split at h
        · rename_i hc
          simp only [hc, if_true]
          split at h
          · rename_i h1
            rw [ihI _ _ _ _ h1]
            simp only []
            split at h
            · simp at h
            · rename_i hfa
              simp only [hfa]; exact ihA _ _ _ _ h
          · simp at h
        · rename_i hc
          simp only [hc, if_false]; exact h
    · intro next prev ts x h
      match ts, h with
      | [], h => simpa [inner] using h
      | Tok.atom n :: rest, h => simpa [inner] using h
      | Tok.op o :: rest, h =>
        simp only [inner] at h ⊢
        split at h
        · rename_i hc
          simp only [hc, if_true]
          split at h
          · rename_i h1
            rw [ihA _ _ _ _ h1]; exact ihI _ _ _ _ h
          · simp at h
        · rename_i hc
          simp only [hc]; exact h

theorem atOp_mono (T : Tbl) {f f' base cut ts x} (h : atOp T f base cut ts = some x) (hf : f ≤ f') :
    atOp T f' base cut ts = some x := by
  induction hf with
  | refl => exact h
  | step _ ih => exact (mono T _).1 _ _ _ _ ih
theorem inner_mono (T : Tbl) {f f' next prev ts x} (h : inner T f next prev ts = some x) (hf : f ≤ f') :
    inner T f' next prev ts = some x := by
  induction hf with
  | refl => exact h
  | step _ ih => exact (mono T _).2 _ _ _ _ ih

/-! ### spines -/
abbrev Sp := List (Nat × E)
def build (base : E) : Sp → E
  | [] => base
  | (o, r) :: xs => build (E.bin o base r) xs
def toks : Sp → List Tok
  | [] => []
  | (o, r) :: xs => Tok.op o :: (pp r ++ toks xs)
def spine : E → Nat × Sp
  | .atom n => (n, [])
  | .bin o l r => ((spine l).1, (spine l).2 ++ [(o, r)])

theorem build_append (base : E) (xs ys : Sp) : build base (xs ++ ys) = build (build base xs) ys := by
  induction xs generalizing base with
  | nil => rfl
  | cons x xs ih => obtain ⟨o, r⟩ := x; simp [build, ih]
theorem toks_append (xs ys : Sp) : toks (xs ++ ys) = toks xs ++ toks ys := by
  induction xs with
  | nil => rfl
  | cons x xs ih => obtain ⟨o, r⟩ := x; simp [toks, ih]
theorem build_spine (e : E) : build (E.atom (spine e).1) (spine e).2 = e := by
  induction e with
  | atom n => rfl
  | bin o l r ihl _ => simp [spine, build_append, ihl, build]
theorem pp_spine (e : E) : pp e = Tok.atom (spine e).1 :: toks (spine e).2 := by
  induction e with
  | atom n => rfl
  | bin o l r ihl _ => simp [spine, pp, toks_append, ihl, toks]

/-- the inner/outer loop does not continue on this token list -/
def StopI (T : Tbl) (prev : Nat) : List Tok → Prop
  | Tok.op o :: _ => cont T prev (T.prec o) = false
  | _ => True
def StopO (T : Tbl) (cut : Nat) : List Tok → Prop
  | Tok.op o :: _ => T.prec o < cut
  | _ => True

/-- the next token is not an assignment operator -/
def NA (T : Tbl) : List Tok → Prop
  | Tok.op o :: _ => T.prec o ≠ T.asg
  | _ => True

theorem fails_false_of_NA (T : Tbl) (p : Nat) {ts : List Tok} (h : NA T ts) : failsOnAssignment T p ts = false := by
  match ts, h with
  | [], _ => rfl
  | Tok.atom _ :: _, _ => rfl
  | Tok.op o :: _, h => simp only [NA] at h; simp [failsOnAssignment, h]

/-- spine well-formedness at cutoff `c` (only the first element of a spine may be an assignment: its left operand
is then the base) -/
def SOK (T : Tbl) (c : Nat) : Sp → Prop
  | [] => True
  | (o, r) :: xs => c ≤ T.prec o ∧ WS T (rlevel T (T.prec o)) r ∧ StopI T (T.prec o) (toks xs) ∧ NA T (toks xs) ∧ SOK T c xs

theorem NA_append (T : Tbl) (xs : Sp) (stop : List Tok) (h : xs ≠ []) : NA T (toks xs ++ stop) ↔ NA T (toks xs) := by
  cases xs with
  | nil => exact absurd rfl h
  | cons x xs => obtain ⟨o, r⟩ := x; simp [toks, NA]

theorem stopI_append (T : Tbl) (p : Nat) (xs : Sp) (stop : List Tok) (h : xs ≠ []) :
    StopI T p (toks xs ++ stop) ↔ StopI T p (toks xs) := by
  cases xs with
  | nil => exact absurd rfl h
  | cons x xs => obtain ⟨o, r⟩ := x; simp [toks, StopI]

theorem stopI_of_stopO (T : Tbl) {c p : Nat} {stop : List Tok} (hc : c ≤ p) (h : StopO T c stop) :
    StopI T p stop := by
  match stop, h with
  | [], _ => trivial
  | Tok.atom _ :: _, _ => trivial
  | Tok.op o :: _, h =>
    simp only [StopO] at h
    simp only [StopI, cont]
    have : ¬ (T.prec o > p) := by omega
    have h2 : (T.prec o == p) = false := by simp; omega
    simp [this, h2]

theorem SOK_weaken (T : Tbl) {c c' : Nat} (hc : c' ≤ c) : ∀ {xs : Sp}, SOK T c xs → SOK T c' xs := by
  intro xs
  induction xs with
  | nil => intro _; trivial
  | cons x xs ih =>
    obtain ⟨o, r⟩ := x
    intro h
    exact ⟨Nat.le_trans hc h.1, h.2.1, h.2.2.1, h.2.2.2.1, ih h.2.2.2.2⟩

theorem SOK_append (T : Tbl) {c : Nat} : ∀ {xs ys : Sp}, SOK T c (xs ++ ys) → SOK T c ys := by
  intro xs
  induction xs with
  | nil => intro ys h; exact h
  | cons x xs ih => obtain ⟨o, r⟩ := x; intro ys h; exact ih h.2.2.2.2

/-- appending one element whose precedence does not continue after any spine element -/
theorem SOK_snoc (T : Tbl) {c : Nat} (o : Nat) (r : E) (hc : c ≤ T.prec o) (hr : WS T (rlevel T (T.prec o)) r) :
    ∀ {xs : Sp}, SOK T c xs → (∀ x ∈ xs, cont T (T.prec x.1) (T.prec o) = false) → (xs ≠ [] → T.prec o ≠ T.asg) →
      SOK T c (xs ++ [(o, r)]) := by
  intro xs
  induction xs with
  | nil => intro _ _ _; exact ⟨hc, hr, trivial, trivial, trivial⟩
  | cons x xs ih =>
    obtain ⟨o', r'⟩ := x
    intro h hall hna
    refine ⟨h.1, h.2.1, ?_, ?_, ih h.2.2.2.2 (fun y hy => hall y (List.mem_cons_of_mem _ hy)) (fun _ => hna (by simp))⟩
    · cases xs with
      | nil => simpa [toks, StopI] using hall (o', r') (by simp)
      | cons y ys =>
        obtain ⟨o2, r2⟩ := y
        have := h.2.2.1
        simpa [toks, StopI] using this
    · cases xs with
      | nil => simpa [toks, NA] using hna (by simp)
      | cons y ys =>
        obtain ⟨o2, r2⟩ := y
        have := h.2.2.2.1
        simpa [toks, NA] using this

/-- an operator at level `p` on the spine of a left operand at `llevel p` does not continue into `p` -/
theorem cont_false_of_llevel (T : Tbl) {p q : Nat} (h : llevel T p ≤ q) : cont T q p = false := by
  unfold llevel at h
  unfold cont
  by_cases hra : T.ra p = true
  · simp only [hra, if_true] at h
    have h1 : ¬ (p > q) := by omega
    have h2 : (p == q) = false := by simp; omega
    simp [h1, h2]
  · have hra' : T.ra p = false := by simpa using hra
    simp only [hra', Bool.false_eq_true, if_false] at h
    have h1 : ¬ (p > q) := by omega
    by_cases hpq : p = q
    · subst hpq; simp [hra]
    · have h2 : (p == q) = false := by simp [hpq]
      simp [h1, h2]

theorem SOK_prec (T : Tbl) {c : Nat} : ∀ {xs : Sp}, SOK T c xs → ∀ x ∈ xs, c ≤ T.prec x.1 := by
  intro xs
  induction xs with
  | nil => intro _ x hx; simp at hx
  | cons y ys ih =>
    obtain ⟨o, r⟩ := y
    intro h x hx
    rcases List.mem_cons.mp hx with rfl | hx
    · exact h.1
    · exact ih h.2.2.2.2 x hx

/-- the spine of a well-shaped expression is a well-formed spine -/
theorem spine_of_WS (T : Tbl) : ∀ {c : Nat} {e : E}, WS T c e → SOK T c (spine e).2 := by
  intro c e h
  induction h with
  | atom => trivial
  | @bin c o l r hc _ hr hasg ihl _ =>
    simp only [spine]
    have hle : c ≤ llevel T (T.prec o) := by unfold llevel; split <;> omega
    apply SOK_snoc T o r hc hr (SOK_weaken T hle ihl)
    · intro x hx
      exact cont_false_of_llevel T (SOK_prec T ihl x hx)
    · intro hne heq
      obtain ⟨n, hn⟩ := hasg heq
      subst hn
      exact hne rfl

end PsycheModel.Climb

namespace PsycheModel.Climb

/-- Lemma G (outer loop), assuming Lemma I for strictly shorter token lists. -/
theorem G_of_I (T : Tbl) (n : Nat)
    (I : ∀ ys rest next prev, (toks ys).length < n → SOK T (rlevel T prev) ys → StopI T prev rest → NA T rest →
          ∃ f, inner T f next prev (toks ys ++ rest) = some (build next ys, rest)) :
    ∀ xs stop base c, (toks xs).length ≤ n → SOK T c xs → StopO T c stop → NA T stop →
      ∃ f, atOp T f base c (toks xs ++ stop) = some (build base xs, stop) := by
  intro xs
  induction xs with
  | nil =>
    intro stop base c _ _ hs _
    refine ⟨1, ?_⟩
    match stop, hs with
    | [], _ => simp [toks, atOp, build]
    | Tok.atom _ :: _, _ => simp [toks, atOp, build]
    | Tok.op o :: _, hs =>
      simp only [StopO] at hs
      have : ¬ (T.prec o ≥ c) := by omega
      simp [toks, atOp, build, this]
  | cons x xs ih =>
    obtain ⟨o, r⟩ := x
    intro stop base c hn hsok hs hna
    obtain ⟨hc, hr, hst, hnax, hrest⟩ := hsok
    have hlen : (toks ((o, r) :: xs)).length = 1 + (1 + (toks (spine r).2).length) + (toks xs).length := by
      simp [toks, pp_spine r]; omega
    have hstop : StopI T (T.prec o) (toks xs ++ stop) := by
      by_cases hx : xs = []
      · subst hx; simpa [toks] using stopI_of_stopO T hc hs
      · exact (stopI_append T _ xs stop hx).2 hst
    have hNArest : NA T (toks xs ++ stop) := by
      by_cases hx : xs = []
      · subst hx; simpa [toks] using hna
      · exact (NA_append T xs stop hx).2 hnax
    obtain ⟨f1, h1⟩ := I (spine r).2 (toks xs ++ stop) (E.atom (spine r).1) (T.prec o)
        (by omega) (spine_of_WS T hr) hstop hNArest
    obtain ⟨f2, h2⟩ := ih stop (E.bin o base r) c (by omega) hrest hs hna
    refine ⟨max f1 f2 + 1, ?_⟩
    have h1' := inner_mono T h1 (Nat.le_max_left f1 f2)
    have h2' := atOp_mono T h2 (Nat.le_max_right f1 f2)
    rw [build_spine] at h1'
    have hquiet : failsOnAssignment T (T.prec o) (toks xs ++ stop) = false := fails_false_of_NA T _ hNArest
    simp only [toks, pp_spine r, List.cons_append, List.append_assoc, atOp, ge_iff_le, hc, if_true, h1', build, hquiet]
    exact h2'

/-- the maximal prefix of a spine whose operators bind at least as tightly as `q` -/
def splitRun (T : Tbl) (q : Nat) : Sp → Sp × Sp
  | [] => ([], [])
  | (o, r) :: xs => if q ≤ T.prec o then ((o, r) :: (splitRun T q xs).1, (splitRun T q xs).2) else ([], (o, r) :: xs)

theorem splitRun_append (T : Tbl) (q : Nat) : ∀ xs : Sp, (splitRun T q xs).1 ++ (splitRun T q xs).2 = xs := by
  intro xs
  induction xs with
  | nil => rfl
  | cons x xs ih => obtain ⟨o, r⟩ := x; simp only [splitRun]; split <;> simp [ih]

theorem splitRun_prec (T : Tbl) (q : Nat) : ∀ xs : Sp, ∀ x ∈ (splitRun T q xs).1, q ≤ T.prec x.1 := by
  intro xs
  induction xs with
  | nil => intro x hx; simp [splitRun] at hx
  | cons y ys ih =>
    obtain ⟨o, r⟩ := y
    intro x hx
    simp only [splitRun] at hx
    split at hx
    · rcases List.mem_cons.mp hx with rfl | hx
      · assumption
      · exact ih x hx
    · simp at hx

theorem splitRun_stop (T : Tbl) (q : Nat) : ∀ xs : Sp, (splitRun T q xs).2 = [] ∨
    ∃ o r zs, (splitRun T q xs).2 = (o, r) :: zs ∧ T.prec o < q := by
  intro xs
  induction xs with
  | nil => left; rfl
  | cons y ys ih =>
    obtain ⟨o, r⟩ := y
    simp only [splitRun]
    split
    · exact ih
    · right; exact ⟨o, r, ys, rfl, by omega⟩

theorem SOK_prefix (T : Tbl) {c : Nat} : ∀ {xs zs : Sp}, SOK T c (xs ++ zs) → SOK T c xs := by
  intro xs
  induction xs with
  | nil => intro _ _; trivial
  | cons x xs ih =>
    obtain ⟨o, r⟩ := x
    intro zs h
    have e : toks (xs ++ zs) = toks xs ++ toks zs := toks_append xs zs
    refine ⟨h.1, h.2.1, ?_, ?_, ih h.2.2.2.2⟩
    · by_cases hx : xs = []
      · subst hx; trivial
      · have := h.2.2.1
        change StopI T (T.prec o) (toks (xs ++ zs)) at this
        rw [e] at this
        exact (stopI_append T _ xs _ hx).1 this
    · by_cases hx : xs = []
      · subst hx; trivial
      · have := h.2.2.2.1
        change NA T (toks (xs ++ zs)) at this
        rw [e] at this
        exact (NA_append T xs _ hx).1 this

theorem SOK_raise (T : Tbl) {c c' : Nat} : ∀ {xs : Sp}, SOK T c xs → (∀ x ∈ xs, c' ≤ T.prec x.1) → SOK T c' xs := by
  intro xs
  induction xs with
  | nil => intro _ _; trivial
  | cons x xs ih =>
    obtain ⟨o, r⟩ := x
    intro h hall
    exact ⟨hall (o, r) (by simp), h.2.1, h.2.2.1, h.2.2.2.1, ih h.2.2.2.2 (fun y hy => hall y (List.mem_cons_of_mem _ hy))⟩

theorem cont_true_of_rlevel (T : Tbl) {prev p : Nat} (h : rlevel T prev ≤ p) : cont T prev p = true := by
  unfold rlevel at h
  unfold cont
  by_cases hra : T.ra prev = true
  · simp only [hra, if_true] at h
    rcases Nat.eq_or_lt_of_le h with heq | hlt
    · subst heq; simp [hra]
    · simp; left; omega
  · have hra' : T.ra prev = false := by simpa using hra
    simp only [hra', Bool.false_eq_true, if_false] at h
    simp; left; omega

/-- a token the inner loop at `prev` stops on also stops an outer loop whose cutoff is an operand level of `prev` -/
theorem stopO_of_stopI (T : Tbl) {prev q : Nat} {rest : List Tok} (hq : rlevel T prev ≤ q) (h : StopI T prev rest) :
    StopO T q rest := by
  match rest, h with
  | [], _ => trivial
  | Tok.atom _ :: _, _ => trivial
  | Tok.op o :: _, h =>
    simp only [StopI] at h
    simp only [StopO]
    rcases Nat.lt_or_ge (T.prec o) q with hlt | hge
    · exact hlt
    · have := cont_true_of_rlevel T (Nat.le_trans hq hge)
      rw [this] at h; cases h

/-- in a well-formed spine every element but the first is followed by the fact that it is not an assignment -/
theorem NA_of_SOK_append (T : Tbl) {c : Nat} : ∀ {pre post : Sp}, SOK T c (pre ++ post) → pre ≠ [] → NA T (toks post) := by
  intro pre
  induction pre with
  | nil => intro post _ h; exact absurd rfl h
  | cons p ps ih =>
    obtain ⟨po, pr⟩ := p
    intro post hs _
    cases ps with
    | nil => exact hs.2.2.2.1
    | cons p2 ps2 => exact ih hs.2.2.2.2 (by simp)

/-- Lemma I (inner loop) for all lengths, tying the knot with Lemma G. -/
theorem I_all (T : Tbl) : ∀ n, ∀ ys rest next prev, (toks ys).length < n → SOK T (rlevel T prev) ys → StopI T prev rest → NA T rest →
    ∃ f, inner T f next prev (toks ys ++ rest) = some (build next ys, rest) := by
  intro n
  induction n with
  | zero => intro ys rest next prev h; omega
  | succ n ih =>
    have G := G_of_I T n ih
    intro ys rest next prev hlen hsok hstop hnar
    cases ys with
    | nil =>
      refine ⟨1, ?_⟩
      match rest, hstop with
      | [], _ => simp [toks, inner, build]
      | Tok.atom _ :: _, _ => simp [toks, inner, build]
      | Tok.op o :: _, hs =>
        simp only [StopI] at hs
        simp [toks, inner, build, hs]
    | cons y ys' =>
      obtain ⟨o1, r1⟩ := y
      have hq : rlevel T prev ≤ T.prec o1 := hsok.1
      have hcont := cont_true_of_rlevel T hq
      -- split off the run that the outer loop at cutoff `prec o1` consumes
      have happ := splitRun_append T (T.prec o1) ((o1, r1) :: ys')
      generalize hpre : (splitRun T (T.prec o1) ((o1, r1) :: ys')).1 = pre at happ
      generalize hpost : (splitRun T (T.prec o1) ((o1, r1) :: ys')).2 = post at happ
      have hpre_ne : pre ≠ [] := by
        rw [← hpre]; simp [splitRun]
      have hprec : ∀ x ∈ pre, T.prec o1 ≤ T.prec x.1 := by rw [← hpre]; exact splitRun_prec T _ _
      have hsok' : SOK T (rlevel T prev) (pre ++ post) := by rw [happ]; exact hsok
      have hsok_pre : SOK T (T.prec o1) pre := SOK_raise T (SOK_prefix T hsok') hprec
      have hsok_post : SOK T (rlevel T prev) post := SOK_append T hsok'
      have hlen' : (toks pre).length + (toks post).length = (toks ((o1, r1) :: ys')).length := by
        rw [← happ, toks_append]; simp
      have hpre_len : 0 < (toks pre).length := by
        cases pre with
        | nil => exact absurd rfl hpre_ne
        | cons p ps => obtain ⟨po, pr⟩ := p; simp [toks]
      have hstopO : StopO T (T.prec o1) (toks post ++ rest) := by
        rcases splitRun_stop T (T.prec o1) ((o1, r1) :: ys') with hnil | ⟨o, r, zs, hz, hlt⟩
        · rw [hpost] at hnil; subst hnil
          simpa [toks] using stopO_of_stopI T hq hstop
        · rw [hpost] at hz; subst hz
          simpa [toks, StopO] using hlt
      have hNApost : NA T (toks post ++ rest) := by
        by_cases hp : post = []
        · subst hp; simpa [toks] using hnar
        · exact (NA_append T post rest hp).2 (NA_of_SOK_append T hsok' hpre_ne)
      obtain ⟨f1, h1⟩ := G pre (toks post ++ rest) next (T.prec o1) (by omega) hsok_pre hstopO hNApost
      obtain ⟨f2, h2⟩ := ih post rest (build next pre) prev (by omega) hsok_post hstop hnar
      refine ⟨max f1 f2 + 1, ?_⟩
      have h1' := atOp_mono T h1 (Nat.le_max_left f1 f2)
      have h2' := inner_mono T h2 (Nat.le_max_right f1 f2)
      have htoks : toks ((o1, r1) :: ys') ++ rest = toks pre ++ (toks post ++ rest) := by
        rw [← happ, toks_append, List.append_assoc]
      have hbuild : build next ((o1, r1) :: ys') = build (build next pre) post := by
        rw [← happ, build_append]
      rw [hbuild]
      have hhead : ∃ tl, toks ((o1, r1) :: ys') ++ rest = Tok.op o1 :: tl := ⟨pp r1 ++ (toks ys' ++ rest), by simp [toks]⟩
      obtain ⟨tl, htl⟩ := hhead
      rw [htl]
      simp only [inner, hcont, if_true]
      rw [← htl, htoks, h1']
      exact h2'

/-- Lemma G for all lengths -/
theorem G_all (T : Tbl) (xs : Sp) (stop : List Tok) (base : E) (c : Nat) (hsok : SOK T c xs) (hs : StopO T c stop)
    (hna : NA T stop) : ∃ f, atOp T f base c (toks xs ++ stop) = some (build base xs, stop) :=
  G_of_I T (toks xs).length (I_all T _) xs stop base c (Nat.le_refl _) hsok hs hna

end PsycheModel.Climb
