import PsycheModel.Positions
/-! Helper lemmas for C16: the vector-of-line-starts + binary-search computation equals a left-to-right scan. -/
namespace PsycheModel.Positions

/-- the specification: walk over the first `n` units counting line breaks and the distance to the last one -/
def scanFrom (line col : Nat) : List Bool → Nat → Nat × Nat
  | _, 0 => (line, col)
  | [], _ + 1 => (line, col)
  | true :: t, n + 1 => scanFrom (line + 1) 0 t n
  | false :: t, n + 1 => scanFrom line (col + 1) t n

def scanPos (u : List Bool) (off : Nat) : Nat × Nat := scanFrom 0 0 u off

theorem breaksFrom_ge : ∀ (u : List Bool) (i x : Nat), x ∈ breaksFrom i u → i + 1 ≤ x := by
  intro u
  induction u with
  | nil => intro i x h; simp [breaksFrom] at h
  | cons b t ih =>
    intro i x h
    cases b with
    | true =>
      simp only [breaksFrom, List.mem_cons] at h
      rcases h with h | h
      · omega
      · have := ih (i + 1) x h; omega
    | false =>
      simp only [breaksFrom] at h
      have := ih (i + 1) x h; omega

theorem upperBound_breaks_zero (u : List Bool) (i off : Nat) (h : off ≤ i) : upperBound (breaksFrom i u) off = 0 := by
  unfold upperBound
  cases hb : breaksFrom i u with
  | nil => rfl
  | cons x rest =>
    have : i + 1 ≤ x := breaksFrom_ge u i x (by rw [hb]; simp)
    have hx : ¬ x ≤ off := by omega
    simp [List.takeWhile, hx]

theorem upperBound_cons (a : Nat) (l : List Nat) (x : Nat) :
    upperBound (a :: l) x = if a ≤ x then 1 + upperBound l x else 0 := by
  unfold upperBound
  by_cases h : a ≤ x
  · simp [List.takeWhile, h]; omega
  · simp [List.takeWhile, h]

/-- the generalised invariant (base offset `i`, accumulated `line`/`col`) -/
theorem scan_eq_breaks : ∀ (u : List Bool) (i line col off : Nat), i ≤ off → off - i ≤ u.length →
    scanFrom line col u (off - i) =
      (line + upperBound (breaksFrom i u) off,
       if upperBound (breaksFrom i u) off = 0 then col + (off - i)
       else off - (breaksFrom i u).getD (upperBound (breaksFrom i u) off - 1) 0) := by
  intro u
  induction u with
  | nil =>
    intro i line col off h1 h2
    have : off - i = 0 := by simpa using h2
    simp [this, scanFrom, breaksFrom, upperBound]
  | cons b t ih =>
    intro i line col off h1 h2
    rcases Nat.eq_or_lt_of_le h1 with heq | hlt
    · subst heq
      simp [scanFrom, upperBound_breaks_zero (b :: t) i i (Nat.le_refl _)]
    · have hoff : off - i = (off - (i + 1)) + 1 := by omega
      have h2' : off - (i + 1) ≤ t.length := by simp at h2; omega
      have ih' := ih (i + 1)
      cases b with
      | true =>
        rw [hoff]
        have hub : upperBound ((i + 1) :: breaksFrom (i + 1) t) off = 1 + upperBound (breaksFrom (i + 1) t) off := by
          rw [upperBound_cons, if_pos (by omega)]
        simp only [scanFrom, breaksFrom, hub]
        rw [ih' (line + 1) 0 off (by omega) h2']
        by_cases hc : upperBound (breaksFrom (i + 1) t) off = 0
        · simp [hc]
        · have : 1 + upperBound (breaksFrom (i + 1) t) off - 1 = (upperBound (breaksFrom (i + 1) t) off - 1) + 1 := by omega
          simp only [hc, if_false, this, List.getD_cons_succ]
          refine Prod.ext (by simp; omega) ?_
          simp
      | false =>
        rw [hoff]
        simp only [scanFrom, breaksFrom]
        rw [ih' line (col + 1) off (by omega) h2']
        by_cases hc : upperBound (breaksFrom (i + 1) t) off = 0
        · simp [hc]; omega
        · simp [hc]

/-- **the computation of `computePosition` is the left-to-right scan**, for every text and every offset in it -/
theorem model_is_scan (u : List Bool) (off : Nat) (h : off ≤ u.length) :
    (lineOf (lineStarts u) off, colOf (lineStarts u) off (lineOf (lineStarts u) off)) = scanPos u off := by
  have key := scan_eq_breaks u 0 0 0 off (Nat.zero_le _) (by simpa using h)
  simp only [Nat.sub_zero, Nat.zero_add] at key
  unfold scanPos
  rw [key]
  have hub : upperBound (lineStarts u) off = 1 + upperBound (breaksFrom 0 u) off := by
    unfold lineStarts; rw [upperBound_cons, if_pos (Nat.zero_le _)]
  have hline : lineOf (lineStarts u) off = upperBound (breaksFrom 0 u) off := by
    unfold lineOf; simp only [hub]; simp
  rw [hline]
  refine Prod.ext rfl ?_
  simp only [colOf, lineStarts]
  by_cases hc : upperBound (breaksFrom 0 u) off = 0
  · simp only [hc, if_true, List.getD_cons_zero]
    by_cases h0 : off = 0 <;> simp [h0]
  · have hpos : off ≠ 0 := by
      intro h0; subst h0
      exact hc (upperBound_breaks_zero u 0 0 (Nat.le_refl _))
    have : upperBound (breaksFrom 0 u) off = (upperBound (breaksFrom 0 u) off - 1) + 1 := by omega
    simp only [hc, if_false, hpos]
    rw [this, List.getD_cons_succ]
    simp

end PsycheModel.Positions
