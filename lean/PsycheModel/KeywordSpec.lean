import PsycheModel.KeywordTrie
/-!
# Specification table for keyword recognition (property C17) — hand-written

One entry per keyword spelling: the token kind and the gate under which the selected standard or an
enabled extension defines it.  Sources: C89/C90 §6.1.1, C99/C11/C17 §6.4.1 (standard keywords and the
standard that introduced each), <stdbool.h>/<stdalign.h>/<threads.h>/<stdarg.h>/<stddef.h> macro
names behind the `MacroTranslations` switches, <iso646.h> operator names, GCC manual "Alternate Keywords"
(every `__x` / `__x__` spelling needs `extGNU_AlternateKeywords`), and the doc comments of
`C/parser/LanguageExtensions.h` for the remaining switches.  Where no document fixes a gate (`asm`,
`typeof`, `__func__`, `__complex__`, `__PRETTY_FUNCTION__`, the format-attribute names) the gate of the
pinned implementation is recorded, so the table also pins those cells against silent change.
-/
namespace PsycheModel.KeywordSpec
open PsycheModel.KeywordTrie PsycheModel.Generated

/-- `w!"abc"` is the list of character codes `[97, 98, 99]`, expanded at elaboration time -/
macro:max "w!" s:str : term => do
  let cs := s.getString.toList.toArray.map (fun c => Lean.Syntax.mkNumLit (toString c.toNat))
  `([$cs,*])

structure Entry where
  word : Word
  kind : Kind
  gate : List Guard
  deriving DecidableEq

def c99 : Guard := .stdGE 1
def c11 : Guard := .stdGE 2
def alt : Guard := .flag .extGNU_AlternateKeywords

def keywords : List Entry := [
  -- C89/C90: always
  ⟨w!"auto", .Keyword_auto, []⟩, ⟨w!"break", .Keyword_break, []⟩, ⟨w!"case", .Keyword_case, []⟩,
  ⟨w!"char", .Keyword_char, []⟩, ⟨w!"const", .Keyword_const, []⟩, ⟨w!"continue", .Keyword_continue, []⟩,
  ⟨w!"default", .Keyword_default, []⟩, ⟨w!"do", .Keyword_do, []⟩, ⟨w!"double", .Keyword_double, []⟩,
  ⟨w!"else", .Keyword_else, []⟩, ⟨w!"enum", .Keyword_enum, []⟩, ⟨w!"extern", .Keyword_extern, []⟩,
  ⟨w!"float", .Keyword_float, []⟩, ⟨w!"for", .Keyword_for, []⟩, ⟨w!"goto", .Keyword_goto, []⟩,
  ⟨w!"if", .Keyword_if, []⟩, ⟨w!"int", .Keyword_int, []⟩, ⟨w!"long", .Keyword_long, []⟩,
  ⟨w!"register", .Keyword_register, []⟩, ⟨w!"return", .Keyword_return, []⟩, ⟨w!"short", .Keyword_short, []⟩,
  ⟨w!"signed", .Keyword_signed, []⟩, ⟨w!"sizeof", .Keyword_sizeof, []⟩, ⟨w!"static", .Keyword_static, []⟩,
  ⟨w!"struct", .Keyword_struct, []⟩, ⟨w!"switch", .Keyword_switch, []⟩, ⟨w!"typedef", .Keyword_typedef, []⟩,
  ⟨w!"union", .Keyword_union, []⟩, ⟨w!"unsigned", .Keyword_unsigned, []⟩, ⟨w!"void", .Keyword_void, []⟩,
  ⟨w!"volatile", .Keyword_volatile, []⟩, ⟨w!"while", .Keyword_while, []⟩,
  -- C99
  ⟨w!"inline", .Keyword_inline, [c99]⟩, ⟨w!"restrict", .Keyword_restrict, [c99]⟩,
  ⟨w!"_Bool", .Keyword__Bool, [c99]⟩, ⟨w!"_Complex", .Keyword__Complex, [c99]⟩,
  -- C11
  ⟨w!"_Alignas", .Keyword__Alignas, [c11]⟩, ⟨w!"_Alignof", .Keyword__Alignof, [c11]⟩,
  ⟨w!"_Atomic", .Keyword__Atomic, [c11]⟩, ⟨w!"_Generic", .Keyword__Generic, [c11]⟩,
  ⟨w!"_Noreturn", .Keyword__Noreturn, [c11]⟩, ⟨w!"_Static_assert", .Keyword__Static_assert, [c11]⟩,
  ⟨w!"_Thread_local", .Keyword__Thread_local, [c11]⟩,
  -- standard-library macro names translated to keywords (MacroTranslations)
  ⟨w!"bool", .Keyword__Bool, [.flag .Translate_bool_AsKeyword]⟩,
  ⟨w!"alignas", .Keyword__Alignas, [c11, .flag .Translate_alignas_AsKeyword]⟩,
  ⟨w!"alignof", .Keyword__Alignof, [c11, .flag .Translate_alignof_AsKeyword]⟩,
  ⟨w!"thread_local", .Keyword__Thread_local, [c11, .flag .Translate_thread_local_AsKeyword]⟩,
  ⟨w!"va_arg", .Keyword_MacroStd_va_arg, [.flag .Translate_va_arg_AsKeyword]⟩,
  ⟨w!"offsetof", .Keyword_MacroStd_offsetof, [.flag .Translate_offsetof_AsKeyword]⟩,
  -- C / C++ / custom extension switches
  ⟨w!"wchar_t", .Keyword_Ext_wchar_t, [.flag .extC_wchar_t_Keyword]⟩,
  ⟨w!"char16_t", .Keyword_Ext_char16_t, [.flag .extC_char16_t_Keyword]⟩,
  ⟨w!"char32_t", .Keyword_Ext_char32_t, [.flag .extC_char32_t_Keyword]⟩,
  ⟨w!"nullptr", .Keyword_Ext_nullptr, [.flag .CPP_nullptr]⟩,
  ⟨w!"true", .Keyword_Ext_true, [.flag .nativeBooleans]⟩, ⟨w!"false", .Keyword_Ext_false, [.flag .nativeBooleans]⟩,
  ⟨w!"NULL", .Keyword_Ext_NULL, [.flag .NULLAsBuiltin]⟩,
  ⟨w!"_Forall", .Keyword_ExtPSY__Forall, [.flag .extPSY_Generics]⟩,
  ⟨w!"_Exists", .Keyword_ExtPSY__Exists, [.flag .extPSY_Generics]⟩,
  ⟨w!"_Template", .Keyword_ExtPSY__Template, [.flag .extPSY_Generics]⟩,
  -- GNU keywords without a switch of their own (gate of the implementation recorded)
  ⟨w!"asm", .Keyword_ExtGNU___asm__, []⟩, ⟨w!"typeof", .Keyword_ExtGNU___typeof__, []⟩,
  -- GNU alternate keywords
  ⟨w!"__asm", .Keyword_ExtGNU___asm__, [alt]⟩, ⟨w!"__asm__", .Keyword_ExtGNU___asm__, [alt]⟩,
  ⟨w!"__const", .Keyword_const, [alt]⟩, ⟨w!"__const__", .Keyword_const, [alt]⟩,
  ⟨w!"__inline", .Keyword_inline, [alt]⟩, ⟨w!"__inline__", .Keyword_inline, [alt]⟩,
  ⟨w!"__restrict", .Keyword_restrict, [alt]⟩, ⟨w!"__restrict__", .Keyword_restrict, [alt]⟩,
  ⟨w!"__signed", .Keyword_signed, [alt]⟩, ⟨w!"__signed__", .Keyword_signed, [alt]⟩,
  ⟨w!"__typeof", .Keyword_ExtGNU___typeof__, [alt]⟩, ⟨w!"__typeof__", .Keyword_ExtGNU___typeof__, [alt]⟩,
  ⟨w!"__volatile", .Keyword_volatile, [alt]⟩, ⟨w!"__volatile__", .Keyword_volatile, [alt]⟩,
  ⟨w!"__alignof", .Keyword__Alignof, [alt]⟩, ⟨w!"__alignof__", .Keyword__Alignof, [alt]⟩,
  ⟨w!"__alignas", .Keyword__Alignas, [alt]⟩,
  ⟨w!"__attribute", .Keyword_ExtGNU___attribute__, [alt]⟩, ⟨w!"__attribute__", .Keyword_ExtGNU___attribute__, [alt]⟩,
  ⟨w!"__extension__", .Keyword_ExtGNU___extension__, [alt]⟩, ⟨w!"__thread", .Keyword_ExtGNU___thread, [alt]⟩,
  ⟨w!"__imag__", .Keyword_ExtGNU___imag__, [alt, .flag .extGNU_Complex]⟩,
  ⟨w!"__real__", .Keyword_ExtGNU___real__, [alt, .flag .extGNU_Complex]⟩,
  ⟨w!"__complex__", .Keyword_ExtGNU___complex__, [.flag .extGNU_Complex]⟩,
  ⟨w!"__func__", .Keyword___func__, [alt, c99]⟩,
  ⟨w!"__FUNCTION__", .Keyword_ExtGNU___FUNCTION__, [alt, .flag .extGNU_FunctionNames]⟩,
  ⟨w!"__PRETTY_FUNCTION__", .Keyword_ExtGNU___PRETTY_FUNCTION__, [.flag .extGNU_FunctionNames]⟩,
  ⟨w!"__scanf__", .Keyword_ExtGNU___scanf__, [alt]⟩, ⟨w!"__printf__", .Keyword_ExtGNU___printf__, [alt]⟩,
  ⟨w!"__strfmon__", .Keyword_ExtGNU___strfmon__, [alt]⟩, ⟨w!"__strftime__", .Keyword_ExtGNU___strftime__, [alt]⟩,
  -- GNU internal builtins
  ⟨w!"__builtin_va_arg", .Keyword_ExtGNU___builtin_va_arg, [.flag .extGNU_InternalBuiltins]⟩,
  ⟨w!"__builtin_tgmath", .Keyword_ExtGNU___builtin_tgmath, [.flag .extGNU_InternalBuiltins]⟩,
  ⟨w!"__builtin_offsetof", .Keyword_ExtGNU___builtin_offsetof, [.flag .extGNU_InternalBuiltins]⟩,
  ⟨w!"__builtin_choose_expr", .Keyword_ExtGNU___builtin_choose_expr, [.flag .extGNU_InternalBuiltins]⟩]

/-- <iso646.h> alternative operator spellings (C99 7.9), enabled by `Translate_operatorNames` when keyword
recognition is off -/
def operatorNames : List Entry := [
  ⟨w!"and", .AmpersandAmpersandToken, []⟩, ⟨w!"and_eq", .AmpersandEqualsToken, []⟩,
  ⟨w!"bitand", .AmpersandToken, []⟩, ⟨w!"bitor", .BarToken, []⟩, ⟨w!"compl", .TildeToken, []⟩,
  ⟨w!"not", .ExclamationToken, []⟩, ⟨w!"not_eq", .ExclamationEqualsToken, []⟩, ⟨w!"or", .BarBarToken, []⟩,
  ⟨w!"or_eq", .BarEqualsToken, []⟩, ⟨w!"xor", .CaretToken, []⟩, ⟨w!"xor_eq", .CaretEqualsToken, []⟩]

def Entry.holds (e : Entry) (o : Opts) : Bool := e.gate.all (·.holds o)

end PsycheModel.KeywordSpec
