import PsycheModel.Expr
import PsycheModel.Generated.Facts
/-! The all-layers expression model instantiated with the tables regenerated from `Parser_Expressions.cpp`:
`precedenceOf`, `isRightAssociative`, the prefix-operator cases of `parseExpressionWithPrecedenceUnary` (with the operand
parser each names) and the `++`/`--` cases of `parsePostfixExpression_AtFollowOfPrimary`. -/
namespace PsycheModel.Expr
open PsycheModel.Generated

set_option maxRecDepth 20000

/-- the operator tokens (N-ary other than `?`, prefix, postfix), in `Kind.all` order; operator `o` of the model is the `o`-th -/
def opTokens : List Kind := Kind.all.filter (fun k =>
  k != Kind.QuestionToken && (Facts.precedenceOf k != 0 || (Facts.prefixOperand k).isSome || Facts.postfixIncDec.contains k))

def kprec (k : Option Kind) : Nat := match k with | some k => Facts.precedenceOf k | none => 0
def kpre (k : Option Kind) : Option Bool := match k with | some k => Facts.prefixOperand k | none => none
def kpost (k : Option Kind) : Bool := match k with | some k => Facts.postfixIncDec.contains k | none => false

/-- the parser's tables -/
def realT : Tbl where
  prec o := kprec opTokens[o]?
  ra p := Facts.rightAssocLevels.contains p
  asg := (Facts.levelNames.lookup "Assignment").getD 2
  qprec := Facts.precedenceOf Kind.QuestionToken
  pre o := kpre opTokens[o]?
  post o := kpost opTokens[o]?
  comma o := opTokens[o]? == some Kind.CommaToken
  commaTok := opTokens.idxOf Kind.CommaToken

/-- generated obligation: `++` / `--` carry no N-ary precedence -/
theorem post_noprec_table : opTokens.all (fun k => !Facts.postfixIncDec.contains k || Facts.precedenceOf k == 0) = true := by decide

theorem realT_sane : realT.Sane where
  asg_pos := by decide
  q_pos := by decide
  post_noprec := by
    intro o h
    simp only [realT] at h ⊢
    cases hk : opTokens[o]? with
    | none => rfl
    | some k =>
      rw [hk] at h
      have hm : k ∈ opTokens := List.mem_of_getElem? hk
      have := List.all_eq_true.mp post_noprec_table k hm
      simp only [kpost] at h
      simp only [kprec]
      rw [h] at this
      simpa using this
  comma_is := by decide
  comma_prec := by decide

/-- generated obligations for the soundness theorems: one comma token, a right-associative assignment level -/
theorem opTokens_nodup : opTokens.Nodup := by decide
theorem realT_comma_unique : ∀ o, realT.comma o = true → o = realT.commaTok := by
  intro o h
  simp only [realT] at h ⊢
  have h' : opTokens[o]? = some Kind.CommaToken := by simpa using h
  obtain ⟨hlt, hget⟩ := List.getElem?_eq_some_iff.mp h'
  have := opTokens_nodup.idxOf_getElem o hlt
  rw [hget] at this
  exact this.symm
theorem realT_asg_right_assoc : realT.ra realT.asg = true := by decide

end PsycheModel.Expr
