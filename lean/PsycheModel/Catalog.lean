/-!
# Model of the name catalog and of the syntax-correlation decision (property C09)

`NameCatalog::catalogUse_CORE` / `catalogDef_CORE` / `indexNodeAndMarkAsEncloser` (`C/reparser/NameCatalog.cpp`), the
cataloger's walk over blocks (`NameCataloger.cpp`: a block starts from a COPY of the enclosing block's maps; at each ambiguity
a copy of the maps as of that point is kept) and `SyntaxCorrelationDisambiguator::disambiguateByDeclarationBefore`.
Names are numbers; a program is a tree of blocks whose items declare a name in a role (typedef name / ordinary identifier
that is not one), use a name in a role, or are an ambiguity on a name.
-/
namespace PsycheModel.Catalog

abbrev Name := Nat

inductive Role where
  | ty | nonTy
  deriving DecidableEq, Repr

def Role.other : Role → Role
  | .ty => .nonTy
  | .nonTy => .ty

/-- `std::pair<bool, size_t>`: declared here?, depth of the enclosure in which the name was first catalogued -/
structure Entry where
  isDef : Bool
  depth : Nat
  deriving DecidableEq, Repr

abbrev Map := Name → Option Entry

/-- an `Enclosure`: the type-name map and the non-type-name map -/
structure Cat where
  t : Map
  n : Map

def Cat.get (σ : Cat) : Role → Map
  | .ty => σ.t
  | .nonTy => σ.n

def Cat.set (σ : Cat) (r : Role) (m : Map) : Cat :=
  match r with
  | .ty => { σ with t := m }
  | .nonTy => { σ with n := m }

def upd (m : Map) (k : Name) (v : Option Entry) : Map := fun x => if x = k then v else m x

/-- `catalogUse_CORE<UseAndDef, OtherUseAndDef>(name)` at stack depth `d` -/
def catUse (σ : Cat) (d : Nat) (r : Role) (k : Name) : Cat :=
  let σ1 := match σ.get r k with
    | some _ => σ
    | none => σ.set r (upd (σ.get r) k (some ⟨false, d⟩))
  match σ1.get r.other k with
  | some e => if e.depth < d then σ1.set r.other (upd (σ1.get r.other) k none) else σ1
  | none => σ1

/-- `catalogDef_CORE<idx>(name)`: `[name].first = true` -/
def catDef (σ : Cat) (r : Role) (k : Name) : Cat :=
  σ.set r (upd (σ.get r) k (some ⟨true, match σ.get r k with | some e => e.depth | none => 0⟩))

mutual
inductive Item where
  | decl (r : Role) (k : Name)
  | use (r : Role) (k : Name)
  | amb (k : Name)
  | block (is : Items)
inductive Items where
  | nil
  | cons (i : Item) (rest : Items)
end

def isDefIn (σ : Cat) (r : Role) (k : Name) : Bool :=
  match σ.get r k with
  | some e => e.isDef
  | none => false

/-- `disambiguateByDeclarationBefore` on the copy kept for the ambiguity -/
def decide (σ : Cat) (k : Name) : Option Role :=
  if isDefIn σ .ty k && !isDefIn σ .nonTy k then some .ty
  else if isDefIn σ .nonTy k && !isDefIn σ .ty k then some .nonTy
  else none

/-! ### C's scoping -/

abbrev Scope := Name → Option Role
abbrev Env := List Scope      -- innermost first

def lookup : Env → Name → Option Role
  | [], _ => none
  | s :: rest, k => match s k with | some r => some r | none => lookup rest k

def declare : Env → Role → Name → Env
  | [], _, _ => []
  | s :: rest, r, k => (fun x => if x = k then some r else s x) :: rest

/-! ### the cataloger and C side by side: for each ambiguity, in source order, (the decision on the copy kept for it, C's role) -/
mutual
def runItem (d : Nat) (σ : Cat) (env : Env) : Item → Cat × Env × List (Option Role × Option Role)
  | .decl r k => (catDef (catUse σ d r k) r k, declare env r k, [])
  | .use r k => (catUse σ d r k, env, [])
  | .amb k => (σ, env, [(decide σ k, lookup env k)])
  | .block is => (σ, env, runItems (d + 1) σ ((fun _ => none) :: env) is)
def runItems (d : Nat) (σ : Cat) (env : Env) : Items → List (Option Role × Option Role)
  | .nil => []
  | .cons i rest =>
    match runItem d σ env i with
    | (σ1, env1, out) => out ++ runItems d σ1 env1 rest
end

/-! a valid program: a declaration does not give a name the other role in the scope it already has one (6.7p3), a use of a
declared name is a use in its role -/
mutual
def validItem (env : Env) : Item → Bool
  | .decl r k => match env with | s :: _ => s k != some r.other | [] => false
  | .use r k => lookup env k == none || lookup env k == some r
  | .amb _ => true
  | .block is => validItems ((fun _ => none) :: env) is
def validItems (env : Env) : Items → Bool
  | .nil => true
  | .cons i rest =>
    validItem env i && validItems (match i with | .decl r k => declare env r k | _ => env) rest
end

end PsycheModel.Catalog
