/-!
# Model of the initializer parser (properties C04, C03)

`C/parser/Parser_Declarations.cpp`, the initializer functions, transcribed over an abstract token alphabet in which an
assignment-expression (and the constant-expression of an array designator) is ONE token (`Tok.e`; the expression layers are
`PsycheModel/Expr.lean`):

| model | C++ |
|---|---|
| `init`   | `Parser::parseInitializer` with `parseExpressionInitializer` and `parseBraceEnclosedInitializer_AtFirst` (`{ }` is diagnosed) |
| `items`  | `Parser::parseInitializerList` = `parseCommaSeparatedItems` with `parseInitializerListItem` (the item after a trailing comma is empty) |
| `item`   | `Parser::parseInitializerListItem` at a token other than `}`, with `parseDesignatedInitializer_AtFirst` (a designation without `=` is diagnosed) |
| `desigs` | `Parser::parseDesignatorList_AtFirst` with `parseFieldDesignator_AtFirst` and `parseArrayDesignator_AtFirst` |

An initializer that does not parse cleanly is `none` (the C++ reports a diagnostic and recovers).  Recursion is on a fuel.
-/
namespace PsycheModel.Init

inductive Tok where
  | e (n : Nat)             -- an assignment-expression
  | id (n : Nat)            -- an identifier (member name)
  | lb | rb | comma | dot | lk | rk | eq
  deriving DecidableEq, Repr

inductive Dg where
  | field (n : Nat)
  | index (n : Nat)
  deriving DecidableEq, Repr

inductive I where
  | expr (n : Nat)
  | brace (xs : List I) (trailingComma : Bool)
  | desig (ds : List Dg) (i : I)
  deriving Repr

/-- `parseDesignatorList_AtFirst`: designators as long as the next token is `.` or `[` -/
def desigs : List Tok → Option (List Dg × List Tok)
  | .dot :: .id n :: r =>
    match desigs r with
    | some (ds, r') => some (.field n :: ds, r')
    | none => none
  | .dot :: _ => none                                   -- ExpectedFieldDesignator
  | .lk :: .e n :: .rk :: r =>
    match desigs r with
    | some (ds, r') => some (.index n :: ds, r')
    | none => none
  | .lk :: _ => none
  | ts => some ([], ts)

mutual
def init (fuel : Nat) (ts : List Tok) : Option (I × List Tok) :=
  match fuel with
  | 0 => none
  | f + 1 =>
    match ts with
    | .lb :: .rb :: _ => none                           -- ExpectedBraceEnclosedInitializerList
    | .lb :: r =>
      match items f r with
      | some (xs, tc, .rb :: r') => some (.brace xs tc, r')
      | _ => none
    | .e n :: r => some (.expr n, r)
    | _ => none
def item (fuel : Nat) (ts : List Tok) : Option (I × List Tok) :=
  match fuel with
  | 0 => none
  | f + 1 =>
    match ts with
    | .comma :: _ => none                               -- `{ , }`, `{ 1, , }`: ExpectedFIRSTofExpression
    | .dot :: _ | .lk :: _ =>
      match desigs ts with
      | some (ds, .eq :: r) =>
        match init f r with
        | some (i, r') => some (.desig ds i, r')
        | none => none
      | _ => none                                       -- ExpectedFollowOfDesignatedInitializer
    | _ => init f ts
def items (fuel : Nat) (ts : List Tok) : Option (List I × Bool × List Tok) :=
  match fuel with
  | 0 => none
  | f + 1 =>
    match item f ts with
    | some (i, .comma :: .rb :: r) => some ([i], true, .rb :: r)     -- the item after a trailing comma is empty
    | some (i, .comma :: r) =>
      match items f r with
      | some (xs, tc, r') => some (i :: xs, tc, r')
      | none => none
    | some (i, r) => some ([i], false, r)
    | none => none
end

/-! ## The grammar side (6.7.9) -/
def ppDg : Dg → List Tok
  | .field n => [.dot, .id n]
  | .index n => [.lk, .e n, .rk]
def ppDs : List Dg → List Tok
  | [] => []
  | d :: ds => ppDg d ++ ppDs ds

mutual
def pp : I → List Tok
  | .expr n => [.e n]
  | .brace xs tc => .lb :: (ppItems xs ++ ((if tc then [.comma] else []) ++ [.rb]))
  | .desig ds i => ppDs ds ++ .eq :: pp i
def ppItems : List I → List Tok
  | [] => []
  | [x] => pp x
  | x :: y :: xs => pp x ++ .comma :: ppItems (y :: xs)
end

mutual
/-- derivable from 6.7.9p1: `initializer: assignment-expression | { initializer-list } | { initializer-list , }`,
`initializer-list: designation_opt initializer | initializer-list , designation_opt initializer`, a designation being a non-empty
designator list and `=`.  `top`: in the position of an `initializer` (no designation). -/
def ok (top : Bool) : I → Bool
  | .expr _ => true
  | .brace xs _ => !xs.isEmpty && okItems xs
  | .desig ds i => !top && !ds.isEmpty && ok true i
def okItems : List I → Bool
  | [] => true
  | x :: xs => ok false x && okItems xs
end

mutual
/-- structural equality (the nested type has no derived `DecidableEq`) -/
def I.beq : I → I → Bool
  | .expr a, .expr b => a == b
  | .brace xs t, .brace ys t' => t == t' && I.beqL xs ys
  | .desig ds i, .desig ds' i' => ds == ds' && I.beq i i'
  | _, _ => false
def I.beqL : List I → List I → Bool
  | [], [] => true
  | a :: as, b :: bs => I.beq a b && I.beqL as bs
  | _, _ => false
end

end PsycheModel.Init
