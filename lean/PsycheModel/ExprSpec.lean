import PsycheModel.Generated.SyntaxKind
/-!
# C11 6.5.5 – 6.5.17 as a table (hand-written specification for C06)

One row per binary / assignment / conditional / comma operator token: the grammar level that introduces it
(1 = expression … 13 = multiplicative-expression), whether the production is right-recursive, and the node kind
an operation with that token must have.
-/
namespace PsycheModel.ExprSpec
open PsycheModel.Generated

structure Row where
  tok : Kind
  level : Nat
  rightAssoc : Bool
  node : Kind
  deriving DecidableEq

def table : List Row := [
  ⟨.CommaToken, 1, false, .SequencingExpression⟩,                         -- 6.5.17
  ⟨.EqualsToken, 2, true, .BasicAssignmentExpression⟩,                    -- 6.5.16
  ⟨.AsteriskEqualsToken, 2, true, .MultiplyAssignmentExpression⟩,
  ⟨.SlashEqualsToken, 2, true, .DivideAssignmentExpression⟩,
  ⟨.PercentEqualsToken, 2, true, .ModuloAssignmentExpression⟩,
  ⟨.PlusEqualsToken, 2, true, .AddAssignmentExpression⟩,
  ⟨.MinusEqualsToken, 2, true, .SubtractAssignmentExpression⟩,
  ⟨.LessThanLessThanEqualsToken, 2, true, .LeftShiftAssignmentExpression⟩,
  ⟨.GreaterThanGreaterThanEqualsToken, 2, true, .RightShiftAssignmentExpression⟩,
  ⟨.AmpersandEqualsToken, 2, true, .AndAssignmentExpression⟩,
  ⟨.CaretEqualsToken, 2, true, .ExclusiveOrAssignmentExpression⟩,
  ⟨.BarEqualsToken, 2, true, .OrAssignmentExpression⟩,
  ⟨.QuestionToken, 3, true, .ConditionalExpression⟩,                      -- 6.5.15
  ⟨.BarBarToken, 4, false, .LogicalORExpression⟩,                         -- 6.5.14
  ⟨.AmpersandAmpersandToken, 5, false, .LogicalANDExpression⟩,            -- 6.5.13
  ⟨.BarToken, 6, false, .BitwiseORExpression⟩,                            -- 6.5.12
  ⟨.CaretToken, 7, false, .BitwiseXORExpression⟩,                         -- 6.5.11
  ⟨.AmpersandToken, 8, false, .BitwiseANDExpression⟩,                     -- 6.5.10
  ⟨.EqualsEqualsToken, 9, false, .EqualsExpression⟩,                      -- 6.5.9
  ⟨.ExclamationEqualsToken, 9, false, .NotEqualsExpression⟩,
  ⟨.LessThanToken, 10, false, .LessThanExpression⟩,                       -- 6.5.8
  ⟨.GreaterThanToken, 10, false, .GreaterThanExpression⟩,
  ⟨.LessThanEqualsToken, 10, false, .LessThanOrEqualExpression⟩,
  ⟨.GreaterThanEqualsToken, 10, false, .GreaterThanOrEqualExpression⟩,
  ⟨.LessThanLessThanToken, 11, false, .LeftShiftExpression⟩,              -- 6.5.7
  ⟨.GreaterThanGreaterThanToken, 11, false, .RightShiftExpression⟩,
  ⟨.PlusToken, 12, false, .AddExpression⟩,                                -- 6.5.6
  ⟨.MinusToken, 12, false, .SubstractExpression⟩,
  ⟨.AsteriskToken, 13, false, .MultiplyExpression⟩,                       -- 6.5.5
  ⟨.SlashToken, 13, false, .DivideExpression⟩,
  ⟨.PercentToken, 13, false, .ModuleExpression⟩]

def rowOf (k : Kind) : Option Row := table.find? (·.tok == k)

def levelOf (k : Kind) : Nat := match rowOf k with | some r => r.level | none => 0

end PsycheModel.ExprSpec
