/-!
# Model of the position computation (property C16)

* `Lexer::yyinput_CORE` / `yyinput` → `unitsOf`: the source bytes as a sequence of UTF-16 code units, each flagged
  "is a line break" (offsets reported by the front end are indices into this sequence);
* `SyntaxTree::relayLineStart` → `lineStarts`; `searchForLineno` (`upper_bound`, step back) → `lineOf`;
  `searchForColumn` → `colOf`; `searchForLineDirective` + the re-basing arithmetic of `computePosition` → `position`;
* the excerpt/caret construction of `newDiagnostic` → `excerpt`;
* `SyntaxToken::location` (from `yylineno_` / `yycolumn_`) → `tokenLocation`.
-/
namespace PsycheModel.Positions

/-- number of trail bytes `yyinput_CORE` skips after a lead byte `b ≥ 0x80` -/
def trailCount (b : UInt8) : Nat :=
  let rec go (c : UInt8) (fuel : Nat) (n : Nat) : Nat :=
    match fuel with
    | 0 => n
    | f + 1 => if c &&& 0x80 ≠ 0 then go (c <<< 1) f (n + 1) else n
  go (b <<< 2) 8 1

/-- the code units the lexer counts for a byte string: `true` = the unit is a line break -/
def unitsOf : List UInt8 → List Bool
  | [] => []
  | b :: rest =>
    if b &&& 0x80 ≠ 0 then
      let t := trailCount b
      (if t ≥ 3 then [false, false] else [false]) ++ unitsOf (rest.drop t)
    else (b == 10) :: unitsOf rest
termination_by l => l.length
decreasing_by all_goals (simp_wf; try omega)
              all_goals (simp [List.length_drop]; omega)

/-- `startOfLineOffsets_` minus its leading 0: one entry (offset + 1) per line break -/
def breaksFrom (i : Nat) : List Bool → List Nat
  | [] => []
  | true :: t => (i + 1) :: breaksFrom (i + 1) t
  | false :: t => breaksFrom (i + 1) t

def lineStarts (u : List Bool) : List Nat := 0 :: breaksFrom 0 u

/-- `std::upper_bound` over a sorted vector, as an index -/
def upperBound (l : List Nat) (x : Nat) : Nat := (l.takeWhile (· ≤ x)).length

/-- `searchForLineno` -/
def lineOf (starts : List Nat) (off : Nat) : Nat :=
  let i := upperBound starts off
  if i ≠ 0 then i - 1 else 0

/-- `searchForColumn` -/
def colOf (starts : List Nat) (off line : Nat) : Nat :=
  if off = 0 then 0 else off - starts.getD line 0

structure Directive where
  offset : Nat
  lineno : Nat
  deriving DecidableEq, Repr

/-- `searchForLineDirective`: `lower_bound` by offset, step back unless at the beginning -/
def directiveFor (dirs : List Directive) (off : Nat) : Directive :=
  let i := (dirs.takeWhile (fun d => d.offset < off)).length
  dirs.getD (if i ≠ 0 then i - 1 else 0) ⟨0, 1⟩

/-- `computePosition` (no Qt-Creator expansion records) -/
def position (u : List Bool) (dirs : List Directive) (off : Nat) : Nat × Nat :=
  let starts := lineStarts u
  let line := lineOf starts off
  let col := colOf starts off line
  let d := directiveFor dirs off
  (line + d.lineno - (lineOf starts d.offset + 1), col)

/-- excerpt of `newDiagnostic`: the physical line number `n` of the raw bytes (no terminator), then a line
with `col` blanks and a caret -/
def nthLine : List UInt8 → Nat → List UInt8
  | bytes, 0 => bytes.takeWhile (· ≠ 10)
  | bytes, n + 1 => nthLine ((bytes.dropWhile (· ≠ 10)).drop 1) n

def excerpt (bytes : List UInt8) (physLine col : Nat) : List UInt8 :=
  nthLine bytes physLine ++ [10] ++ List.replicate col 32 ++ [94, 10]

/-- `SyntaxToken::location()`: `yylineno_` is 1 + line breaks seen so far, `yycolumn_ - 1` the distance to the
last line break -/
def tokenLocation (u : List Bool) (off : Nat) : Nat × Nat :=
  let starts := lineStarts u
  let line := lineOf starts off
  (line + 1, off - starts.getD line 0)

end PsycheModel.Positions
