/-!
# Model of the type-specifier state machine (property C08)

Transcription of `DeclarationBinder::visitBasicTypeSpecifier`, `visitVoidTypeSpecifier` and the two-pass
loop of `visit_AtSpecifiers_COMMON` (`C/sema/DeclarationBinder_Specifiers.cpp`), restricted to the eleven
arithmetic/void keywords, type qualifiers and storage-class specifiers.

* `tys_` (only its top matters here) ↦ `top : Option Ty` (`none` = empty stack)
* `F_.inImplicitIntTySpec_ / inImplicitDoubleTySpec_ / inExplicitSignedOrUnsignedTySpec_` ↦ `impInt impDbl expSign`
* `diagReporter_.InvalidType(..)` ↦ `diag := true` (sticky: the binder keeps going after a diagnostic)
-/
namespace PsycheModel.Specifiers

inductive Kw where
  | void | char | short | int | long | float | double | signed | unsigned | bool | complex
  deriving DecidableEq, Repr, Inhabited

def Kw.all : List Kw := [.void, .char, .short, .int, .long, .float, .double, .signed, .unsigned, .bool, .complex]

def Kw.idx : Kw → Nat
  | .void => 0 | .char => 1 | .short => 2 | .int => 3 | .long => 4 | .float => 5 | .double => 6
  | .signed => 7 | .unsigned => 8 | .bool => 9 | .complex => 10

/-- `BasicTypeKind` -/
inductive BK where
  | Char | Char_S | Char_U | Short_S | Short_U | Int_S | Int_U | Long_S | Long_U | LongLong_S | LongLong_U
  | Bool | Float | Double | LongDouble | FloatComplex | DoubleComplex | LongDoubleComplex
  deriving DecidableEq, Repr, Inhabited

inductive Ty where
  | basic (k : BK)
  | void
  deriving DecidableEq, Repr, Inhabited

structure St where
  top : Option Ty := none
  impInt : Bool := false
  impDbl : Bool := false
  expSign : Bool := false
  diag : Bool := false
  deriving DecidableEq, Repr, Inhabited

def init : St := {}

def St.invalid (s : St) : St := { s with diag := true }
def St.reset (s : St) (k : BK) : St := { s with top := some (.basic k) }

/-- first specifier: `if (tys_.empty())` branch of `visitBasicTypeSpecifier` (+ `visitVoidTypeSpecifier`) -/
def first (s : St) : Kw → St
  | .void => { s with top := some .void }
  | .char => s.reset .Char
  | .short => { s.reset .Short_S with impInt := true }
  | .int => s.reset .Int_S
  | .long => { s.reset .Long_S with impInt := true }
  | .float => s.reset .Float
  | .double => s.reset .Double
  | .bool => s.reset .Bool
  | .complex => { s.reset .DoubleComplex with impDbl := true }
  | .signed => { s.reset .Int_S with impInt := true, expSign := true }
  | .unsigned => { s.reset .Int_U with impInt := true, expSign := true }

/-- a further specifier on top of the basic type `cur` -/
def next (s : St) (cur : BK) : Kw → St
  | .void => s.invalid                 -- visitVoidTypeSpecifier with a non-empty stack
  | .char =>
    match cur with
    | .Int_S => if s.impInt then s.reset .Char_S else s.invalid
    | .Int_U => if s.impInt then s.reset .Char_U else s.invalid
    | _ => s.invalid
  | .short =>
    match cur with
    | .Int_S => s.reset .Short_S
    | .Int_U => s.reset .Short_U
    | _ => s.invalid
  | .int =>
    let allow := s.impInt
    let s := { s with impInt := false }
    match cur with
    | .Short_S | .Short_U | .Int_S | .Int_U | .Long_S | .Long_U | .LongLong_S | .LongLong_U =>
      if allow then s else s.invalid
    | _ => s.invalid
  | .long =>
    match cur with
    | .Int_S => s.reset .Long_S
    | .Int_U => s.reset .Long_U
    | .Long_S => s.reset .LongLong_S
    | .Long_U => s.reset .LongLong_U
    | .Double => s.reset .LongDouble
    | .DoubleComplex => s.reset .LongDoubleComplex
    | _ => s.invalid
  | .float =>
    if !s.expSign then
      match cur with
      | .DoubleComplex => if s.impDbl then s.reset .FloatComplex else s.invalid
      | _ => s.invalid
    else s.invalid
  | .double =>
    let allow := s.impDbl
    let s := { s with impDbl := false }
    if !s.expSign then
      match cur with
      | .Long_S => if s.impInt then s.reset .LongDouble else s.invalid
      | .DoubleComplex | .LongDoubleComplex => if allow then s else s.invalid
      | _ => s.invalid
    else s.invalid
  | .bool => s.invalid
  | .complex =>
    match cur with
    | .Long_S =>
      if s.impInt && !s.expSign then { s.reset .LongDoubleComplex with impDbl := true } else s.invalid
    | .LongDouble => s.reset .LongDoubleComplex
    | .Float => s.reset .FloatComplex
    | .Double => s.reset .DoubleComplex
    | _ => s.invalid
  | .signed =>
    if !s.expSign then
      let s := { s with expSign := true }
      match cur with
      | .Char => s.reset .Char_S
      | .Short_S => s.reset .Short_S
      | .Int_S => s.reset .Int_S
      | .Long_S => s.reset .Long_S
      | .LongLong_S => s.reset .LongLong_S
      | _ => s.invalid
    else s.invalid
  | .unsigned =>
    if !s.expSign then
      let s := { s with expSign := true }
      match cur with
      | .Char => s.reset .Char_U
      | .Short_S => s.reset .Short_U
      | .Int_S => s.reset .Int_U
      | .Long_S => s.reset .Long_U
      | .LongLong_S => s.reset .LongLong_U
      | _ => s.invalid
    else s.invalid

def step (s : St) (k : Kw) : St :=
  match s.top with
  | none => first s k
  | some (.basic cur) => next s cur k
  | some .void => s.invalid        -- basic specifier: top is not Basic; `void`: stack not empty

def run (ks : List Kw) : St := ks.foldl step init

/-- outcome of a specifier list: the type left for the declarators and the two diagnostics -/
structure Outcome where
  type : Ty
  invalidType : Bool         -- DeclarationBinder-100-6.7.2-2-B
  missingDefaultsToInt : Bool -- DeclarationBinder-100-6.7.2-2-A
  deriving DecidableEq, Repr

/-- the code after the first loop of `visit_AtSpecifiers_COMMON` -/
def finish (s : St) : Outcome :=
  match s.top with
  | none => ⟨.basic .Int_S, s.diag, true⟩
  | some t => ⟨t, s.diag || (s.impDbl && t == .basic .LongDoubleComplex), false⟩

/-- a specifier as the loop sees it -/
inductive Spec where
  | ty (k : Kw)
  | qual (q : Nat)        -- const / volatile / restrict / _Atomic (visited in the second pass)
  | storage (c : Nat)     -- typedef / extern / static / auto / register / _Thread_local (no effect on the type)
  deriving DecidableEq, Repr

def tyKws : List Spec → List Kw
  | [] => []
  | .ty k :: t => k :: tyKws t
  | _ :: t => tyKws t

/-- `visit_AtSpecifiers_COMMON`, first pass + default: qualifiers are skipped, storage classes do not
touch the type stack -/
def bindSpecifiers (specs : List Spec) : Outcome := finish (run (tyKws specs))

end PsycheModel.Specifiers
