/-!
# Model of the parser's statement-context bookkeeping (property C04)

`Parser::StatementContext` and its `operator+` (`C/parser/Parser_Statements.cpp`), the four context checks of
`Parser::parseStatement` (`case`/`default` need an enclosing `switch`, `continue` an enclosing loop, `break` either) and the
way every statement parser hands its context down: loops as `ctx + Loop`, `switch` as `ctx + Switch`, `if`/`else`, labels
and compound statements unchanged.
-/
namespace PsycheModel.StmtCtx

inductive Ctx where
  | none | switch | loop | both
  deriving DecidableEq, Repr

def Ctx.all : List Ctx := [.none, .switch, .loop, .both]
def Ctx.code : Ctx → Nat | .none => 0 | .switch => 1 | .loop => 2 | .both => 3

/-- `operator+(StatementContext a, StatementContext b)` -/
def Ctx.add (a b : Ctx) : Ctx :=
  match a with
  | .none => b
  | .switch => if b = .loop then .both else a
  | .loop => if b = .switch then .both else a
  | .both => a

mutual
/-- statements, as far as context matters -/
inductive Stmt where
  | other                           -- expression, declaration, return, goto, null statement …
  | brk | cont
  | case (s : Stmt) | dflt (s : Stmt) | label (s : Stmt)
  | loop (s : Stmt)                 -- while / do / for
  | switch (s : Stmt)
  | ifs (s : Stmt) | ifelse (s t : Stmt)
  | block (ss : Stmts)
inductive Stmts where
  | nil
  | cons (s : Stmt) (rest : Stmts)
end

mutual
/-- does `parseStatement(_, ctx)` report one of the four context diagnostics somewhere inside `s`? -/
def diag (ctx : Ctx) : Stmt → Bool
  | .other => false
  | .brk => ctx == .none
  | .cont => ctx != .loop && ctx != .both
  | .case s => (ctx != .switch && ctx != .both) || diag ctx s
  | .dflt s => (ctx != .switch && ctx != .both) || diag ctx s
  | .label s => diag ctx s
  | .loop s => diag (ctx.add .loop) s
  | .switch s => diag (ctx.add .switch) s
  | .ifs s => diag ctx s
  | .ifelse s t => diag ctx s || diag ctx t
  | .block ss => diagL ctx ss
def diagL (ctx : Ctx) : Stmts → Bool
  | .nil => false
  | .cons s rest => diag ctx s || diagL ctx rest
end

/-! ## Specification: C11 6.8.1p2, 6.8.6.2p1, 6.8.6.3p1 -/

mutual
/-- `valid sw lp s`: every `case`/`default` of `s` is in a `switch` body, every `continue` in a loop body, every `break` in
either — given that `s` itself stands inside a switch (`sw`) / a loop (`lp`) -/
def valid (sw lp : Bool) : Stmt → Bool
  | .other => true
  | .brk => sw || lp
  | .cont => lp
  | .case s => sw && valid sw lp s
  | .dflt s => sw && valid sw lp s
  | .label s => valid sw lp s
  | .loop s => valid sw true s
  | .switch s => valid true lp s
  | .ifs s => valid sw lp s
  | .ifelse s t => valid sw lp s && valid sw lp t
  | .block ss => validL sw lp ss
def validL (sw lp : Bool) : Stmts → Bool
  | .nil => true
  | .cons s rest => valid sw lp s && validL sw lp rest
end

def Ctx.inSwitch : Ctx → Bool | .switch | .both => true | _ => false
def Ctx.inLoop : Ctx → Bool | .loop | .both => true | _ => false

end PsycheModel.StmtCtx
