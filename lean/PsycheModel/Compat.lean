/-!
# Model of `TypeChecker::typesAreCompatible` (property C11)

Transcription of the case analysis of `typesAreCompatible(ty1, ty2, treatVoidAsAny, ignoreQualifier)`
(`C/sema/TypeChecker.cpp`) on typedef-free types (a typedef name at either type is replaced by its resolved synonym before
anything else, which the model assumes done).  With `ignoreQualifier` the function first strips the qualifiers of `ty2`
(since repair 'typesAreCompatible looks through … a qualifier on the right'): `unq`, applied at every call.
-/
namespace PsycheModel.Compat

/-- `FunctionType::parameterListForm()` -/
inductive Form where
  | specifiedAsEmpty | unspecified | nonEmpty
  deriving DecidableEq, Repr

mutual
inductive Ty where
  | basic (k : Nat)
  | void
  | error
  | tag (kind name : Nat)
  | ptr (t : Ty)
  | arr (t : Ty)
  | fn (r : Ty) (form : Form) (ps : TyList)
  | qual (q : Nat) (t : Ty)              -- `q`: the qualifier set, as a number
inductive TyList where
  | nil
  | cons (t : Ty) (rest : TyList)
end

/-- the qualifiers of `ty2` are dropped first when they are to be ignored -/
def stripQ : Ty → Ty
  | .qual _ t => stripQ t
  | t => t
def unq (iq : Bool) (t : Ty) : Ty := if iq then stripQ t else t

mutual
/-- the `switch` of the function, entered with `ty2` already stripped by `unq` -/
def compatCore : Ty → Ty → (voidAny ignoreQ : Bool) → Bool
  | .arr e1, .arr e2, va, iq => compatCore e1 (unq iq e2) va iq
  | .arr e1, .ptr r2, va, iq => compatCore e1 (unq iq r2) va iq
  | .arr _, .void, va, _ => va
  | .arr _, _, _, _ => false
  | .basic k1, .basic k2, _, _ => k1 == k2
  | .basic _, .tag _ _, va, _ => va
  | .basic _, .void, va, _ => va
  | .basic k1, .qual _ u2, va, iq => if iq then compatBasicUnq k1 u2 va else false
  | .basic _, _, _, _ => false
  | .fn r1 f1 ps1, .fn r2 f2 ps2, va, iq =>
    if compatCore r1 (unq iq r2) false iq then
      match f1 with
      | .specifiedAsEmpty => f2 == .specifiedAsEmpty || f2 == .unspecified
      | .unspecified => true
      | .nonEmpty =>
        if f2 == .specifiedAsEmpty then false
        else if f2 == .unspecified then true
        else compatL ps1 ps2 va iq
    else false
  | .fn _ _ _, .void, va, _ => va
  | .fn _ _ _, _, _, _ => false
  | .ptr r1, .arr e2, va, iq => compatCore r1 (unq iq e2) va iq
  | .ptr r1, .ptr r2, va, iq => compatCore r1 (unq iq r2) va iq
  | .ptr _, .void, va, _ => va
  | .ptr _, _, _, _ => false
  | .tag k1 n1, .tag k2 n2, _, _ => k1 == k2 && n1 == n2
  | .tag _ _, .void, va, _ => va
  | .tag _ _, _, _, _ => false
  | .void, .arr _, va, _ => va
  | .void, .basic _, va, _ => va
  | .void, .fn _ _ _, va, _ => va
  | .void, .ptr _, va, _ => va
  | .void, .void, _, _ => true
  | .void, .qual _ _, va, _ => va
  | .void, .tag _ _, va, _ => va
  | .void, _, _, _ => false
  | .qual q1 u1, t2, va, iq =>
    if iq then compatCore u1 (unq iq t2) va iq
    else
      match t2 with
      | .void => va
      | .qual q2 u2 => if q1 != q2 then false else compatCore u1 (unq iq u2) va iq
      | _ => false
  | .error, _, _, _ => false
/-- `typesAreCompatible(basic, unqualifiedType(ty2), voidAny, false)` -/
def compatBasicUnq (k1 : Nat) : Ty → Bool → Bool
  | .basic k2, _ => k1 == k2
  | .tag _ _, va => va
  | .void, va => va
  | _, _ => false
/-- the parameter loop: same number, pairwise compatible -/
def compatL : TyList → TyList → Bool → Bool → Bool
  | .nil, .nil, _, _ => true
  | .cons t1 r1, .cons t2 r2, va, iq => compatCore t1 (unq iq t2) va iq && compatL r1 r2 va iq
  | _, _, _, _ => false
end

/-- `typesAreCompatible` -/
def compat (t1 t2 : Ty) (va iq : Bool) : Bool := compatCore t1 (unq iq t2) va iq

mutual
/-- a type a valid program can have: no error type inside -/
def ErrorFree : Ty → Prop
  | .error => False
  | .ptr t => ErrorFree t
  | .arr t => ErrorFree t
  | .fn r _ ps => ErrorFree r ∧ ErrorFreeL ps
  | .qual _ t => ErrorFree t
  | _ => True
def ErrorFreeL : TyList → Prop
  | .nil => True
  | .cons t rest => ErrorFree t ∧ ErrorFreeL rest
end

end PsycheModel.Compat
