import PsycheModel.VMap
import PsycheModel.Lemmas.VMap
import PsycheModel.Props.C20
import PsycheModel.TextTable
import PsycheModel.Lemmas.TextTable
import PsycheModel.Props.C18
import PsycheModel.Props.C17
import PsycheModel.Props.C08
