import PsycheModel.VMap
import PsycheModel.Lemmas.VMap
import PsycheModel.Props.C20
