import Driver.VMapDrv
import Driver.TextTableDrv
import Driver.KeywordsDrv
import Driver.SpecifiersDrv
import Driver.ArithDrv
import Driver.CnipDrv
import Driver.PositionsDrv
import Driver.TreeDrv
import Driver.ProtocolDrv
import Driver.ClimbDrv
import Driver.LexDrv
import Driver.DeclaratorsDrv
import Driver.ScopesDrv
import Driver.UnparseDrv
import Driver.TypedefsDrv
import Driver.StmtCtxDrv
import Driver.GuessRoleDrv
import Driver.DeclParserDrv
import Driver.RotateDrv
import Driver.CatalogDrv
import Driver.ExprDrv
import Driver.CompatDrv
import Driver.StmtDrv
import Driver.InitDrv
import Driver.TagDrv
import Driver.DeclarationDrv
import Driver.BodyDrv
/-! `psymodel <component>`: reads one case per line on stdin, answers one line per case. -/

partial def loop (h : IO.FS.Stream) (out : IO.FS.Stream) (f : String → String) : IO Unit := do
  let line ← h.getLine
  if line.isEmpty then return ()
  out.putStrLn (f line)
  loop h out f

def main (args : List String) : IO UInt32 := do
  let stdin ← IO.getStdin
  let stdout ← IO.getStdout
  match args with
  | ["vmap"] => loop stdin stdout Driver.VMapDrv.handle; return 0
  | ["textable"] => loop stdin stdout Driver.TextTableDrv.handle; return 0
  | ["keywords"] => loop stdin stdout Driver.KeywordsDrv.handle; return 0
  | ["specifiers"] => loop stdin stdout Driver.SpecifiersDrv.handle; return 0
  | ["arith"] => loop stdin stdout Driver.ArithDrv.handle; return 0
  | ["cnip"] => loop stdin stdout Driver.CnipDrv.handle; return 0
  | ["positions"] => loop stdin stdout Driver.PositionsDrv.handle; return 0
  | ["tree"] => loop stdin stdout Driver.TreeDrv.handle; return 0
  | ["protocol"] => loop stdin stdout Driver.ProtocolDrv.handle; return 0
  | ["lex"] => loop stdin stdout Driver.LexDrv.handle; return 0
  | ["declarators"] => loop stdin stdout Driver.DeclaratorsDrv.handle; return 0
  | ["scopes"] => loop stdin stdout Driver.ScopesDrv.handle; return 0
  | ["unparse"] => loop stdin stdout Driver.UnparseDrv.handle; return 0
  | ["typedefs"] => loop stdin stdout Driver.TypedefsDrv.handle; return 0
  | ["stmtctx"] => loop stdin stdout Driver.StmtCtxDrv.handle; return 0
  | ["guessrole"] => loop stdin stdout Driver.GuessRoleDrv.handle; return 0
  | ["declparser"] => loop stdin stdout Driver.DeclParserDrv.handle; return 0
  | ["climb"] => loop stdin stdout Driver.ClimbDrv.handle; return 0
  | ["rotate"] => loop stdin stdout Driver.RotateDrv.handle; return 0
  | ["stmt"] => loop stdin stdout Driver.StmtDrv.handle; return 0
  | ["init"] => loop stdin stdout Driver.InitDrv.handle; return 0
  | ["tag"] => loop stdin stdout Driver.TagDrv.handle; return 0
  | ["declaration"] => loop stdin stdout Driver.DeclarationDrv.handle; return 0
  | ["unit"] => loop stdin stdout Driver.DeclarationDrv.handleUnit; return 0
  | ["body"] => loop stdin stdout Driver.BodyDrv.handle; return 0
  | ["compat"] => loop stdin stdout Driver.CompatDrv.handle; return 0
  | ["expr"] => loop stdin stdout Driver.ExprDrv.handle; return 0
  | ["catalog"] => loop stdin stdout Driver.CatalogDrv.handle; return 0
  | _ => IO.eprintln "usage: psymodel <component>"; return 2
