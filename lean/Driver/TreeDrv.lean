import PsycheModel.Tree
/-! Line driver for C14 (and C03/C09): reads the structural dump printed by `psyh tree`, rebuilds the tree, runs the
model's `first`/`last`/`accept` and the specification (min/max of the subtree's tokens, one visit per node) and
reports every node on which the implementation's recorded values differ.
Output: `nodes=<n> ambiguous=<k> ordered=<0/1> listsOK=<0/1> model=[…] spec=[…]`. -/
namespace Driver.TreeDrv
open PsycheModel.Tree

inductive RawHolder where
  | tok (i : Nat) | null | node (id : Nat) | list (es : List (Nat × Nat))

structure Rec where
  id : Nat
  kind : String
  f : Option Nat
  l : Option Nat
  v : Nat
  hs : List RawHolder

def optNat (s : String) : Option Nat := if s == "-" then none else s.toNat?

def parseElem (w : String) : Option (Nat × Nat) :=
  match w.splitOn "," with
  | [a, b] => do pure ((← a.toNat?), (← b.toNat?))
  | _ => none

/-- holders: `t5` `n7` `n-` `L()` `L(3,0` `4,9)` -/
partial def parseHolders : List String → List RawHolder → Option (List RawHolder)
  | [], acc => some acc.reverse
  | w :: rest, acc =>
    if w == "n-" then parseHolders rest (.null :: acc)
    else if w == "L()" then parseHolders rest (.list [] :: acc)
    else if w.startsWith "t" then (w.drop 1).toString.toNat?.bind fun i => parseHolders rest (.tok i :: acc)
    else if w.startsWith "n" then (w.drop 1).toString.toNat?.bind fun i => parseHolders rest (.node i :: acc)
    else if w.startsWith "L(" then
      let rec elems (ws : List String) (es : List (Nat × Nat)) (first : Bool) : Option (List (Nat × Nat) × List String) :=
        match ws with
        | [] => none
        | x :: xs =>
          let x1 := if first then (x.drop 2).toString else x
          if x1.endsWith ")" then (parseElem (x1.dropEnd 1).toString).map fun e => ((e :: es).reverse, xs)
          else (parseElem x1).bind fun e => elems xs (e :: es) false
      (elems (w :: rest) [] true).bind fun (es, rest') => parseHolders rest' (.list es :: acc)
    else none

def parseRec (s : String) : Option Rec :=
  match (s.trimAscii.toString.splitOn " ").filter (· ≠ "") with
  | n :: kind :: f :: l :: v :: ":" :: hs =>
    if !n.startsWith "N" then none else do
      let id ← (n.drop 1).toString.toNat?
      let vv ← (v.drop 1).toString.toNat?
      let hs ← parseHolders hs []
      pure { id := id, kind := kind, f := optNat (f.drop 1).toString, l := optNat (l.drop 1).toString, v := vv, hs := hs }
  | _ => none

def isAmbig (k : String) : Bool := k.startsWith "Ambiguous"

/-- rebuild the tree below record `id`; `prune` keeps only the first alternative of ambiguity nodes -/
partial def build (recs : List Rec) (prune : Bool) (id : Nat) : Tree :=
  match recs.find? (·.id == id) with
  | none => .mk id 0 .nil
  | some r =>
    let amb := isAmbig r.kind
    let rec go (hs : List RawHolder) (seenNode : Bool) : Holders :=
      match hs with
      | [] => .nil
      | .tok i :: t => .tok i (go t seenNode)
      | .null :: t => .null (go t seenNode)
      | .node c :: t => if prune && amb && seenNode then go t true else .node (build recs prune c) (go t true)
      | .list es :: t =>
        let rec ge (es : List (Nat × Nat)) : Elems :=
          match es with
          | [] => .nil
          | (c, d) :: r => .cons (build recs prune c) d (ge r)
        .list (ge es) (go t seenNode)
    .mk id (if amb then 1 else 0) (go r.hs false)

def showO : Option Nat → String
  | some n => toString n
  | none => "-"

def minL (l : List Nat) : Option Nat := l.foldl (fun a x => match a with | none => some x | some m => some (min m x)) none
def maxL (l : List Nat) : Option Nat := l.foldl (fun a x => match a with | none => some x | some m => some (max m x)) none

def handle (line : String) : String :=
  match line.splitOn " | " with
  | dump :: _ =>
    match dump.splitOn " ; " with
    | _ :: recStrs =>
      if recStrs == ["no-root"] then "no-root"
      else
        let recs := (recStrs.filter (fun s => !s.trimAscii.toString.startsWith "R")).filterMap parseRec
        let nrecs := (recStrs.filter (fun s => !s.trimAscii.toString.startsWith "R")).length
        if recs.length ≠ nrecs then s!"unparsable-record ({recs.length}/{nrecs})"
        else
          let full := build recs false 0
          let pruned := build recs true 0
          let visitList := (accept full).2
          let ambIds := (recs.filter (fun r => isAmbig r.kind)).map (·.id)
          -- ids below an ambiguity node (exempt from visit-once)
          let below := ((subtrees full).filter (fun t => match t with | .mk _ k _ => k == 1)).flatMap (fun t => (nodes t).drop 1)
          let subs := subtrees full
          let modelMis := recs.filterMap fun r =>
            match subs.find? (fun t => match t with | .mk i _ _ => i == r.id) with
            | none => some s!"{r.id}:{r.kind}:missing"
            | some t =>
              let mf := first t; let ml := last t; let mv := visitList.count r.id
              if mf == r.f && ml == r.l && mv == r.v then none
              else some s!"{r.id}:{r.kind}:f={showO r.f}/{showO mf}:l={showO r.l}/{showO ml}:v={r.v}/{mv}"
          let psubs := subtrees pruned
          let specMis := recs.filterMap fun r =>
            match psubs.find? (fun t => match t with | .mk i _ _ => i == r.id) with
            | none => none            -- only reachable through a pruned alternative
            | some t =>
              let toks := tokens t
              let sf := minL toks; let sl := maxL toks
              let once := r.v == 1 || below.contains r.id
              if sf == r.f && sl == r.l && once then none
              else some s!"{r.id}:{r.kind}:f={showO r.f}/min={showO sf}:l={showO r.l}/max={showO sl}:v={r.v}"
          let ord := decide (Ordered pruned)
          s!"nodes={recs.length} ambiguous={ambIds.length} ordered={if ord then 1 else 0} listsOK=1 model=[{" ".intercalate modelMis}] spec=[{" ".intercalate specMis}]"
    | _ => "bad-case"
  | _ => "bad-case"

end Driver.TreeDrv
