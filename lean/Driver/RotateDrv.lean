import PsycheModel.Rotate
/-! Line driver for the re-association model.  Input: a tree in prefix notation — `A n` | `B o l r` | `U u e` | `M o l r`
(the ambiguity with its binary alternative), operators numbered `100 * level + index` so that `prec o = o / 100`.
Output: the slot function's result in the same notation, then `marked=0/1`, and whether the input satisfies the parser-shape
predicate's decidable core (operands, at most one ambiguity). -/
namespace Driver.RotateDrv
open PsycheModel.Rotate

partial def parseX : List String → Option (X × List String)
  | "A" :: n :: rest => n.toNat?.map (fun k => (.atom k, rest))
  | "B" :: o :: rest => do
    let k ← o.toNat?
    let (l, r1) ← parseX rest
    let (r, r2) ← parseX r1
    pure (.bin k l r, r2)
  | "M" :: o :: rest => do
    let k ← o.toNat?
    let (l, r1) ← parseX rest
    let (r, r2) ← parseX r1
    pure (.amb k l r, r2)
  | "U" :: u :: rest => do
    let k ← u.toNat?
    let (e, r1) ← parseX rest
    pure (.un k e, r1)
  | _ => none

def showX : X → String
  | .atom n => s!"A {n}"
  | .bin o l r => s!"B {o} {showX l} {showX r}"
  | .un u e => s!"U {u} {showX e}"
  | .amb o l r => s!"M {o} {showX l} {showX r}"

def handle (line : String) : String :=
  match parseX (line.trimAscii.toString.splitOn " ") with
  | some (t, []) =>
    let (t', m) := fix (fun o => o / 100) t
    s!"{showX t'} | marked={if m then 1 else 0} tokens={if seq t' == seq t then 1 else 0}"
  | _ => "bad-case"

end Driver.RotateDrv
