import PsycheModel.Scopes
/-! Line driver for C10.  Input: `<queries> | <items>`; queries `ns.name,…`; items (prefix, blank separated):
`D<ns>.<name>` declaration, `U` use, `B{ … }` block, `P<ns>.<name>( params )` function declaration,
`F<ns>.<name>( params ){ … }` function definition; a parameter is `<ns>.<name>` or `<ns>.<name>:<k1>,<k2>:<s|p>`
(named parameters of its own function declarator; `s` = that declarator stashes its scope).
Output: `model= <use 0: q=decl id or -,…> ; <use 1 …> | c= …` — the binder model's final answers and C's. -/
namespace Driver.ScopesDrv
open PsycheModel.Scopes

def parseKey (s : String) : Option Key :=
  match s.splitOn "." with
  | [a, b] => do pure ((← a.toNat?), (← b.toNat?))
  | _ => none

def parseParam (s : String) : Option Param :=
  match s.splitOn ":" with
  | [k] => (parseKey k).map fun k => { key := k }
  | [k, inner, f] => do
    let k ← parseKey k
    let inner ← (inner.splitOn ",").mapM parseKey
    pure { key := k, inner := inner, innerStashes := f == "s" }
  | _ => none

partial def parseParams : List String → List Param → Option (List Param × List String)
  | [], _ => none
  | w :: rest, acc =>
    if w == ")" || w == "){" then some (acc.reverse, w :: rest)
    else (parseParam w).bind fun p => parseParams rest (p :: acc)

mutual
partial def parseItems : List String → Option (Items × List String)
  | [] => some (.nil, [])
  | "}" :: rest => some (.nil, "}" :: rest)
  | ws => do
    let (i, r) ← parseItem ws
    let (is, r) ← parseItems r
    pure (.cons i is, r)
partial def parseItem : List String → Option (Item × List String)
  | [] => none
  | w :: rest =>
    if w == "U" then some (.use, rest)
    else if w == "B{" then do
      let (b, r) ← parseItems rest
      match r with
      | "}" :: r' => pure (.block b, r')
      | _ => none
    else if w.startsWith "D" then (parseKey (w.drop 1).toString).map fun k => (.decl k, rest)
    else if w.startsWith "P" && w.endsWith "(" then do
      let k ← parseKey ((w.drop 1).dropEnd 1).toString
      let (ps, r) ← parseParams rest []
      match r with
      | ")" :: r' => pure (.proto k ps, r')
      | _ => none
    else if w.startsWith "F" && w.endsWith "(" then do
      let k ← parseKey ((w.drop 1).dropEnd 1).toString
      let (ps, r) ← parseParams rest []
      match r with
      | "){" :: r' =>
        let (b, r'') ← parseItems r'
        match r'' with
        | "}" :: r3 => pure (.fundef k ps b, r3)
        | _ => none
      | _ => none
    else none
end

def showRes (qs : List Key) (f : Key → Option Nat) : String :=
  ",".intercalate (qs.map fun q => s!"{q.1}.{q.2}=" ++ (match f q with | some d => toString d | none => "-"))

def handle (line : String) : String :=
  match line.trimAscii.toString.splitOn " | " with
  | [qs, items] =>
    match ((qs.trimAscii.toString.splitOn ",").filter (· ≠ "")).mapM parseKey,
          parseItems ((items.splitOn " ").filter (· ≠ "")) with
    | some qs, some (p, []) =>
      let st := bindUnit p
      let c := cUnit p
      let uses := List.range st.nextUse
      let m := " ; ".intercalate (uses.map fun u => showRes qs (st.resolve u))
      let cs := " ; ".intercalate (uses.map fun u => showRes qs (c.resolve u))
      s!"model= {m} | c= {cs} | ok={st.ok} uses={st.nextUse} decls={st.nextDecl} stackLeft={st.stack.length}"
    | _, _ => "bad-case"
  | _ => "bad-case"

end Driver.ScopesDrv
