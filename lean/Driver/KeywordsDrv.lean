import PsycheModel.KeywordSpec
import PsycheModel.Generated.Keywords
import Driver.TextTableDrv
/-! Line driver for C17.  Input `<options> <hexword>` (options as in harness/psy_common.h).
Output: `<model kind> <recognize> <translate> <spec kind>`. -/
namespace Driver.KeywordsDrv
open PsycheModel.KeywordTrie PsycheModel.KeywordSpec PsycheModel.Generated PsycheModel.Generated.Keywords

/-- defaults of `LanguageExtensions()` / `MacroTranslations()` -/
def defaultFlag : Flag → Bool
  | .extC_KandRStyle | .extC_wchar_t_Keyword | .extC_char8_t_Keyword | .extC_char16_t_Keyword
  | .extC_char32_t_Keyword | .CPP_nullptr | .nativeBooleans => false
  | _ => true

def parseOpts (s : String) : Option Opts :=
  match s.splitOn "," with
  | [st, kr, _, _, bits] =>
    let std := (st.toNat?).getD 2
    let recog := kr != "0"
    let bl := bits.toList
    let flag (f : Flag) : Bool :=
      match Flag.all.idxOf? f with
      | some i => match bl[i]? with
        | some '1' => true
        | some '0' => false
        | _ => defaultFlag f
      | none => defaultFlag f
    some { std := std, flag := flag, keywordRecognition := recog }
  | _ => none

/-- the specification evaluated directly (first entry with that spelling whose gate holds) -/
def specKind (w : Word) (o : Opts) : Kind :=
  if o.keywordRecognition then
    match keywords.find? (fun e => e.word == w && e.holds o) with
    | some e => e.kind
    | none => Kind.IdentifierToken
  else if o.flag .Translate_operatorNames then
    match operatorNames.find? (fun e => e.word == w) with
    | some e => e.kind
    | none => Kind.IdentifierToken
  else Kind.IdentifierToken

def handle (line : String) : String :=
  match (line.trimAscii.toString.splitOn " ").filter (· ≠ "") with
  | [os, hx] =>
    match parseOpts os, Driver.TextTableDrv.unhex hx.toList with
    | some o, some bytes =>
      let w : Word := bytes.map (·.toNat)
      let m := lexIdentifierKind recognizeTable translateTable w o
      s!"{m.name} {(dispatch recognizeTable w o).name} {(dispatch translateTable w o).name} {(specKind w o).name}"
    | _, _ => "bad-case"
  | _ => "bad-case"

end Driver.KeywordsDrv
