import PsycheModel.Stmt
import Driver.ExprDrv
/-! Line driver for the COMPOSITION of the statement parser model with the all-layers expression parser model (C04, C06): the `e` tokens of
`Stmt.lean` are produced by `Expr.nary` itself.  Input: blank-separated words: the statement skeleton `; { } ( ) : if else switch case default
while do for goto continue break return`, `d` a declaration (with its `;`), `L` an identifier that is a label, and the expression words of
`ExprDrv` (`a` operand, `T` type name, `SyntaxKind` token names; `( ) :` are shared).  Wherever a word that can begin an expression stands
- a `(` directly after `if` / `switch` / `while` / `for` is the statement's own - the expression parser model is run (at the
constant-expression level after `case`) and what it consumes becomes one `e` token carrying its tree.  Output: `<ok> <tree>` with the
parser's node kinds, or `FAIL`. -/
namespace Driver.BodyDrv
open PsycheModel

def skel : String → Option Stmt.Tok
  | ";" => some .semi | "{" => some .lbrace | "}" => some .rbrace | ")" => some .rp | ":" => some .colon
  | "if" => some .kif | "else" => some .kelse | "switch" => some .kswitch | "case" => some .kcase | "default" => some .kdefault
  | "while" => some .kwhile | "do" => some .kdo | "for" => some .kfor | "goto" => some .kgoto | "continue" => some .kcontinue
  | "break" => some .kbreak | "return" => some .kreturn | "d" => some (.d 0) | "L" => some (.id 0)
  | _ => none

/-- an expression word: `( ) :` are written as in the statement skeleton -/
def xtok (w : String) : Option Expr.Tok :=
  if w == "(" then some .lp else if w == ")" then some .rp else if w == ":" then some .colon else Driver.ExprDrv.tokOf w

partial def lift (ws : List String) (prev : String) (acc : Array Stmt.Tok) (es : Array Expr.E) : Option (Array Stmt.Tok × Array Expr.E) :=
  match ws with
  | [] => some (acc, es)
  | w :: r =>
    if w == "(" && (prev == "if" || prev == "switch" || prev == "while" || prev == "for") then lift r w (acc.push .lp) es
    else match skel w with
      | some t => lift r w (acc.push t) es
      | none =>
        -- an expression begins here: the longest run of expression words is handed to the expression parser model
        let run := ws.takeWhile (fun x => (xtok x).isSome)
        match run.mapM xtok with
        | none => none
        | some ts =>
          let cutoff := if prev == "case" then Expr.realT.qprec else 1
          match Expr.nary Expr.realT (4 * ts.length + 3) cutoff ts with
          | some (e, rest) =>
            let used := ts.length - rest.length
            if used == 0 then none
            else lift (ws.drop used) "e" (acc.push (.e es.size)) (es.push e)
          | none => none

def showX (es : Array Expr.E) (n : Nat) : String :=
  match es[n]? with
  | some e => Driver.ExprDrv.showE e
  | none => "?"

def optX (es : Array Expr.E) : Option Nat → String
  | none => ""
  | some n => " " ++ showX es n

partial def showS (es : Array Expr.E) : Stmt.S → String
  | .expr n => s!"(ExpressionStatement {showX es n})"
  | .empty => "ExpressionStatement"
  | .decl _ => "d"
  | .block xs => if xs.isEmpty then "CompoundStatement" else "(CompoundStatement " ++ " ".intercalate (xs.map (showS es)) ++ ")"
  | .ite c t => s!"(IfStatement {showX es c} {showS es t})"
  | .itel c t el => s!"(IfStatement {showX es c} {showS es t} {showS es el})"
  | .sw c b => s!"(SwitchStatement {showX es c} {showS es b})"
  | .case c s => s!"(CaseLabelStatement {showX es c} {showS es s})"
  | .dflt s => s!"(DefaultLabelStatement {showS es s})"
  | .label _ s => s!"(IdentifierLabelStatement {showS es s})"
  | .while_ c b => s!"(WhileStatement {showX es c} {showS es b})"
  | .do_ b c => s!"(DoStatement {showS es b} {showX es c})"
  | .for_ i c k b =>
    let init := match i with | .none => "ExpressionStatement" | .expr n => s!"(ExpressionStatement {showX es n})" | .decl _ => "d"
    s!"(ForStatement {init}{optX es c}{optX es k} {showS es b})"
  | .goto _ => "(GotoStatement a)"
  | .cont => "ContinueStatement"
  | .brk => "BreakStatement"
  | .ret v => match v with | some n => s!"(ReturnStatement {showX es n})" | none => "ReturnStatement"

def handle (line : String) : String :=
  let ws := (line.trimAscii.toString.splitOn " ").filter (· ≠ "")
  match lift ws "" #[] #[] with
  | none => "FAIL"
  | some (ts, es) =>
    let tl := ts.toList
    match Stmt.stmt (2 * tl.length + 1) tl with
    | some (s, []) => (if Stmt.ok s && es.all (Expr.ok Expr.realT) then "1 " else "0 ") ++ showS es s
    | _ => "FAIL"

end Driver.BodyDrv
