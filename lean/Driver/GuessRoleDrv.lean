import PsycheModel.GuessRole
/-! Line driver for the `guessRoleOfIdentifier` model: `<ctx 0-2> <kr 0/1> <token classes as letters>` → `D` | `T`.
Letters: i ident, t typeSpec, s storage, q qual, f funcSpec, a alignas, b attribute, * ( ) [ ] , ; { and o other;
`-` = no token (end of file right after the identifier). -/
namespace Driver.GuessRoleDrv
open PsycheModel.GuessRole

def kOf : Char → Option K
  | 'i' => some .ident | 't' => some .typeSpec | 's' => some .storage | 'q' => some .qual | 'f' => some .funcSpec
  | 'a' => some .alignas | 'b' => some .attr | '*' => some .star | '(' => some .lparen | ')' => some .rparen
  | '[' => some .lbrack | ']' => some .rbrack | ',' => some .comma | ';' => some .semicolon | '{' => some .lbrace
  | 'o' => some .other | _ => none

def handle (line : String) : String :=
  match (line.trimAscii.toString.splitOn " ").filter (· ≠ "") with
  | [c, kr, ts] =>
    let ctx := match c with | "1" => DeclCtx.structOrUnion | "2" => .parameter | _ => .unspecified
    match (if ts == "-" then some [] else ts.toList.mapM kOf) with
    | some ks => match guess ctx (kr == "1") ks with | .declarator => "D" | .typedefName => "T"
    | none => "bad-case"
  | _ => "bad-case"

end Driver.GuessRoleDrv
