import PsycheModel.SpecifierSpec
import Driver.TextTableDrv
/-! Line driver for C08.  Input `<ctx> <hex of specifier text>`; output `<type sexpr> <diag ids> <spec>` where
`<spec>` is the verdict of the C11 table on the keyword multiset (`invalid` or the row's type). -/
namespace Driver.SpecifiersDrv
open PsycheModel.Specifiers

def kwOf : String → Option Spec
  | "void" => some (.ty .void) | "char" => some (.ty .char) | "short" => some (.ty .short) | "int" => some (.ty .int)
  | "long" => some (.ty .long) | "float" => some (.ty .float) | "double" => some (.ty .double)
  | "signed" => some (.ty .signed) | "unsigned" => some (.ty .unsigned) | "_Bool" => some (.ty .bool)
  | "_Complex" => some (.ty .complex)
  | "const" => some (.qual 0) | "volatile" => some (.qual 1)
  | "static" => some (.storage 0) | "extern" => some (.storage 1) | "register" => some (.storage 2) | "auto" => some (.storage 3)
  | _ => none

def bkName : BK → String
  | .Char => "Char" | .Char_S => "Char_S" | .Char_U => "Char_U" | .Short_S => "Short_S" | .Short_U => "Short_U"
  | .Int_S => "Int_S" | .Int_U => "Int_U" | .Long_S => "Long_S" | .Long_U => "Long_U" | .LongLong_S => "LongLong_S"
  | .LongLong_U => "LongLong_U" | .Bool => "Bool" | .Float => "Float" | .Double => "Double" | .LongDouble => "LongDouble"
  | .FloatComplex => "FloatComplex" | .DoubleComplex => "DoubleComplex" | .LongDoubleComplex => "LongDoubleComplex"

def tyName : Ty → String
  | .void => "Void"
  | .basic k => bkName k

def handle (line : String) : String :=
  match (line.trimAscii.toString.splitOn " ").filter (· ≠ "") with
  | [_, hx] =>
    match Driver.TextTableDrv.unhex hx.toList with
    | some bytes =>
      let text := String.ofList (bytes.map (fun b => Char.ofNat b.toNat))
      let ws := (text.splitOn " ").filter (· ≠ "")
      match ws.mapM kwOf with
      | none => "bad-case"
      | some specs =>
        let o := bindSpecifiers specs
        -- second pass of visit_AtSpecifiers_COMMON: qualifiers wrap the type left by the first pass
        let qc := specs.any (· == .qual 0)
        let qv := specs.any (· == .qual 1)
        let t := tyName o.type
        let t := if qc || qv then s!"(Q{if qc then "c" else ""}{if qv then "v" else ""}_{t})" else t
        let ds := (if o.missingDefaultsToInt then ["DeclarationBinder-100-6.7.2-2-A"] else []) ++
                  (if o.invalidType then ["DeclarationBinder-100-6.7.2-2-B"] else [])
        let d := if ds.isEmpty then "-" else ",".intercalate ds
        let ks := tyKws specs
        let sp := if ks.isEmpty then "Int_S+missing" else match rowOf ks with
          | some ty => tyName ty
          | none => "invalid"
        s!"{t} {d} {sp}"
    | none => "bad-case"
  | _ => "bad-case"

end Driver.SpecifiersDrv
