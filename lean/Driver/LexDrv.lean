import PsycheModel.Lex
import Driver.KeywordsDrv
/-! Line driver for C05.  Input `<options> <hex text>`; output in the format of `psyh lex` without the diagnostics:
`<Kind>:<byteOffset>:<byteSize>:<charOffset>:<charSize>:<flags>:<hex lexeme> … | C <Kind>:<byteOffset>:<byteSize> …`,
or `unsupported` for a text with a `# expansion` marker line. -/
namespace Driver.LexDrv
open PsycheModel.Lex PsycheModel.KeywordTrie PsycheModel.Generated PsycheModel.Generated.Keywords

def hexDigit (n : Nat) : Char := if n < 10 then Char.ofNat (48 + n) else Char.ofNat (87 + n)
def hexOf (l : List Nat) : String := String.ofList (l.flatMap fun b => [hexDigit (b / 16), hexDigit (b % 16)])

def flagsStr (f : Flags) : String :=
  let s := (if f.sol then "s" else "") ++ (if f.ws then "w" else "") ++ (if f.joined then "j" else "")
  if s.isEmpty then "-" else s

def tokStr (totalB totalU : Nat) (t : Tok) : String :=
  let bo := t.off totalB
  let co := totalU - unitsOf t.start
  let lx := match t.lexeme with
    | none => "-"
    | some [] => "."
    | some l => hexOf l
  s!"{t.kind.name}:{bo}:{t.size}:{co}:{unitsOf t.cps}:{flagsStr t.flags}:{lx}"

def commentStr (totalB : Nat) (t : Tok) : String :=
  s!"{t.kind.name}:{t.off totalB}:{t.size}"

def commentMode (s : String) : Nat :=
  match s.splitOn "," with
  | [_, _, cm, _, _] => cm.toNat?.getD 0
  | _ => 0

def handle (line : String) : String :=
  match (line.trimAscii.toString.splitOn " ").filter (· ≠ "") with
  | [os, hx] =>
    match Driver.KeywordsDrv.parseOpts os, Driver.TextTableDrv.unhex hx.toList with
    | some o, some bytes =>
      let text : List Nat := (bytes.map (·.toNat)).takeWhile (· != 0)
      let cfg : Cfg := { discard := commentMode os == 0, idKind := fun w => lexIdentifierKind recognizeTable translateTable w o }
      let s := segment text
      match lexAll cfg s with
      | none => "unsupported"
      | some (ts, cs) =>
        let tb := (bytesOf s).length
        let tu := unitsOf s
        " ".intercalate (ts.map (tokStr tb tu)) ++ " | C" ++ String.join (cs.map fun c => " " ++ commentStr tb c)
    | _, _ => "bad-case"
  | _ => "bad-case"

end Driver.LexDrv
