import PsycheModel.Declaration
import PsycheModel.DeclParser
/-! Line driver for the declaration parser model (C04): the COMPOSITION of the declarator parser model (`DeclParser.parseDeclarator`) with the
declaration model (`Declaration.declaration`).  Input: blank-separated tokens: `s` type specifier, `q` another specifier (qualifier, storage
class, alignment), `g` a tag declaration (`struct S { … }`), `typedef`, the declarator tokens
`* ( ) [ ] 3 x c ...` (`x` identifier, `c` a qualifier, `3` a number), `,`, `=`, `i` initializer, `;`, `b` compound statement; an `s` after
the first declarator token is a parameter's specifier.  Output: `<kind> <number of specifiers> <declarator shape>[=] ...` with shapes over
I(dentifier) P(ointer) A(rray) F(unction) R(parenthesized), or `FAIL`.  The whole string must be consumed. -/
namespace Driver.DeclarationDrv
open PsycheModel.Declarators PsycheModel.Declaration

def dtok : String → PsycheModel.DeclParser.Tok
  | "*" => .star | "(" => .lparen | ")" => .rparen | "[" => .lbrack | "]" => .rbrack | "3" => .num | "x" => .ident "x"
  | "c" => .qual .const | "..." => .ellipsis | "," => .comma | "s" => .spec "int"
  | _ => .stop

/-- the declarators of the list replaced by one token each, carrying the tree the declarator parser model builds -/
partial def lift (ws : List String) : Option (List Tok) :=
  match PsycheModel.DeclParser.parseDeclarator (ws.map dtok) with
  | none => none
  | some (d, rest) =>
    let after := ws.drop (ws.length - rest.length)
    match after with
    | "=" :: "i" :: "," :: r => (lift r).map (fun l => .dcl d :: .eq :: .ini 0 :: .comma :: l)
    | "=" :: "i" :: ";" :: r => if r.isEmpty then some [.dcl d, .eq, .ini 0, .semi] else none
    | "=" :: "i" :: "b" :: r => if r.isEmpty then some [.dcl d, .eq, .ini 0, .body 0] else none
    | "," :: r => (lift r).map (fun l => .dcl d :: .comma :: l)
    | ";" :: r => if r.isEmpty then some [.dcl d, .semi] else none
    | "b" :: r => if r.isEmpty then some [.dcl d, .body 0] else none
    | _ => none

partial def shape : Decl → String
  | .ident _ => "I" | .abstract => "?" | .bitfield d => "B(" ++ shape d ++ ")"
  | .ptr _ d => "P(" ++ shape d ++ ")" | .paren d => "R(" ++ shape d ++ ")" | .arr d => "A(" ++ shape d ++ ")" | .fn d _ _ => "F(" ++ shape d ++ ")"

def isSpecWord (w : String) : Bool := w == "s" || w == "typedef" || w == "q" || w == "g"
def specTok (w : String) : Tok :=
  if w == "typedef" then .tdef else if w == "q" then .sp 0 else if w == "g" then .tagd 0 else .ty 0

def showID (x : ID) : String := shape x.d ++ (if x.init.isSome then "=" else "")

def showR : R → String
  | .incomplete [.tagd _] => "Tag"              -- a tag declaration by itself is delivered as the TagDeclaration node
  | .incomplete ss => s!"Incomplete {ss.length}"
  | .typedefDecl ss ids => s!"Typedef {ss.length}" ++ String.join (ids.map (fun x => " " ++ showID x))
  | .varDecl ss ids => s!"Variable {ss.length}" ++ String.join (ids.map (fun x => " " ++ showID x))
  | .funDef ss d _ => s!"FunctionDefinition {ss.length} " ++ shape d

def handle (line : String) : String :=
  let ws := (line.trimAscii.toString.splitOn " ").filter (· ≠ "")
  let sp := ws.takeWhile isSpecWord
  let rest := ws.drop sp.length
  let spt : List Tok := sp.map specTok
  let lifted : Option (List Tok) := if rest == [";"] then some [.semi] else lift rest
  match lifted with
  | none => "FAIL"
  | some l =>
    match declaration (spt ++ l) with
    | some (r, []) => showR r
    | _ => "FAIL"

/-- a whole unit: declarations one after the other, each lifted as above -/
partial def liftUnit (ws : List String) : Option (List Tok) :=
  match ws with
  | [] => some []
  | ";" :: r => (liftUnit r).map (fun l => Tok.semi :: l)
  | _ =>
    let sp := ws.takeWhile isSpecWord
    let rest := ws.drop sp.length
    let spt : List Tok := sp.map specTok
    if sp.isEmpty then none
    else match rest with
      | ";" :: r => (liftUnit r).map (fun l => spt ++ Tok.semi :: l)
      | _ =>
        -- the init-declarator list ends at the first `;` or `b` that the declarator parser leaves
        let rec go (ws : List String) (acc : List Tok) : Option (List Tok × List String) :=
          match PsycheModel.DeclParser.parseDeclarator (ws.map dtok) with
          | none => none
          | some (d, rest) =>
            let after := ws.drop (ws.length - rest.length)
            match after with
            | "=" :: "i" :: "," :: r => go r (acc ++ [.dcl d, .eq, .ini 0, .comma])
            | "=" :: "i" :: ";" :: r => some (acc ++ [.dcl d, .eq, .ini 0, .semi], r)
            | "=" :: "i" :: "b" :: r => some (acc ++ [.dcl d, .eq, .ini 0, .body 0], r)
            | "," :: r => go r (acc ++ [.dcl d, .comma])
            | ";" :: r => some (acc ++ [.dcl d, .semi], r)
            | "b" :: r => some (acc ++ [.dcl d, .body 0], r)
            | _ => none
        match go rest [] with
        | some (l, r) => (liftUnit r).map (fun l2 => spt ++ l ++ l2)
        | none => none

def handleUnit (line : String) : String :=
  let ws := (line.trimAscii.toString.splitOn " ").filter (· ≠ "")
  match liftUnit ws with
  | none => "FAIL"
  | some l =>
    match unit (l.length + 1) l with   -- sufficient: theorem unit_fuel_free
    | some rs => " ; ".intercalate (rs.map showR)
    | none => "FAIL"

end Driver.DeclarationDrv
