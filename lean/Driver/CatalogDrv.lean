import PsycheModel.Catalog
/-! Line driver for the name-catalog model.  Input: a program as blank-separated words — `Dt k` / `Dn k` (declare name k as a
typedef name / an ordinary identifier), `Ut k` / `Un k` (use), `A k` (ambiguity on k), `{` … `}` (block).
Output: `valid=0/1` then, per ambiguity in source order, `<decision>/<C role>` with t, n or - . -/
namespace Driver.CatalogDrv
open PsycheModel.Catalog

partial def parseItems : List String → Option (Items × List String)
  | [] => some (.nil, [])
  | "}" :: rest => some (.nil, "}" :: rest)
  | "{" :: rest => do
    let (inner, r1) ← parseItems rest
    match r1 with
    | "}" :: r2 =>
      let (more, r3) ← parseItems r2
      pure (.cons (.block inner) more, r3)
    | _ => none
  | w :: k :: rest => do
    let n ← k.toNat?
    let it ← (match w with
      | "Dt" => some (Item.decl .ty n) | "Dn" => some (Item.decl .nonTy n)
      | "Ut" => some (Item.use .ty n) | "Un" => some (Item.use .nonTy n)
      | "A" => some (Item.amb n) | _ => none)
    let (more, r1) ← parseItems rest
    pure (.cons it more, r1)
  | _ => none

def roleCh : Option Role → String
  | some .ty => "t" | some .nonTy => "n" | none => "-"

def cat0 : Cat := ⟨fun _ => none, fun _ => none⟩
def env0 : Env := [fun _ => none]

def handle (line : String) : String :=
  match parseItems ((line.trimAscii.toString.splitOn " ").filter (· ≠ "")) with
  | some (prog, []) =>
    let out := runItems 1 cat0 env0 prog
    s!"valid={if validItems env0 prog then 1 else 0} {" ".intercalate (out.map fun p => roleCh p.1 ++ "/" ++ roleCh p.2)}"
  | _ => "bad-case"

end Driver.CatalogDrv
