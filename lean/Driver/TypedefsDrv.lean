import PsycheModel.Typedefs
/-! Line driver for C12.  Input: records separated by ` ; `:
`T <declid> <type>` (a typedef declaration and its synonymized type as bound), `V <label> <type>` (any other declaration).
Types (prefix): `b<k>` basic, `v` void, `e` error, `g<n>` tag bound to declaration n, `n<d>` typedef name whose scope search
finds typedef declaration d, `n-` typedef name that is not found, `p t`, `a t`, `q<c><v> t`, `f<k><0/1> ret p1 … pk`.
Output: per record `<label>=<type>`: the type after canonicalisation, with `(TD#d=>resolved)` at typedef-name leaves; for a
`T` record the resolved synonymized type. -/
namespace Driver.TypedefsDrv
open PsycheModel.Typedefs

mutual
partial def parseTy : List String → Option (Ty × List String)
  | [] => none
  | w :: rest =>
    if w == "v" then some (.void false, rest)
    else if w == "e" then some (.error, rest)
    else if w == "p" then (parseTy rest).map fun (t, r) => (.ptr t, r)
    else if w == "a" then (parseTy rest).map fun (t, r) => (.arr t, r)
    else if w.startsWith "b" then (w.drop 1).toString.toNat?.map fun k => (.basic k false, rest)
    else if w.startsWith "g" then (w.drop 1).toString.toNat?.map fun k => (.tag k, rest)
    else if w == "n-" then some (.tdName 0, rest)
    else if w.startsWith "n" then (w.drop 1).toString.toNat?.map fun k => (.tdName (k + 1), rest)
    else if w.startsWith "q" then
      match w.toList with
      | [_, c, v] => (parseTy rest).map fun (t, r) => (.qual (c == '1') (v == '1') t, r)
      | _ => none
    else if w.startsWith "f" then
      match w.toList with
      | [_, k, v] => do
        let k ← (String.singleton k).toNat?
        let (ret, r) ← parseTy rest
        let (ps, r) ← parseTys k r
        pure (.fn ret ps (v == '1'), r)
      | _ => none
    else none
partial def parseTys : Nat → List String → Option (TyList × List String)
  | 0, ws => some (.nil, ws)
  | k + 1, ws => do
    let (t, r) ← parseTy ws
    let (ts, r) ← parseTys k r
    pure (.cons t ts, r)
end

/-- typedef-name leaves are encoded `tdName (d+1)` for "found declaration d", `tdName 0` for "not found" -/
def look (name : Nat) : Option Nat := if name == 0 then none else some (name - 1)

mutual
partial def showTy (env : Nat → Option Ty) (fuel : Nat) : Ty → String
  | .basic k c => s!"B{k}{if c then "" else "!"}"
  | .void c => s!"Void{if c then "" else "!"}"
  | .error => "Error"
  | .tag n => s!"G{n}"
  | .td d => s!"(TD#{d}=>{showTy env fuel (resolve env fuel (.td d))})"
  | .tdName n => s!"(TDNAME{n})"
  | .ptr t => s!"(Ptr_{showTy env fuel t})"
  | .arr t => s!"(Arr_{showTy env fuel t})"
  | .fn r ps v => s!"(Fn_{showTy env fuel r}_[{"_".intercalate (showTys env fuel ps)}]{if v then "_..." else ""})"
  | .qual c v t => s!"(Q{if c then "c" else ""}{if v then "v" else ""}_{showTy env fuel t})"
partial def showTys (env : Nat → Option Ty) (fuel : Nat) : TyList → List String
  | .nil => []
  | .cons t rest => showTy env fuel t :: showTys env fuel rest
end

def handle (line : String) : String :=
  let recs := (line.trimAscii.toString.splitOn " ; ").map fun r => (r.splitOn " ").filter (· ≠ "")
  let parsed := recs.mapM fun r =>
    match r with
    | kind :: label :: ty =>
      match parseTy ty with
      | some (t, []) => some (kind, label, canonicalize look t)
      | _ => none
    | _ => none
  match parsed with
  | none => "bad-case"
  | some ps =>
    let tds := ps.filterMap fun (k, l, t) => if k == "T" then l.toNat?.map fun d => (d, t) else none
    let env : Nat → Option Ty := fun d => (tds.find? (·.1 == d)).map (·.2)
    let fuel := tds.length + 1
    " ; ".intercalate (ps.map fun (k, l, t) =>
      if k == "T" then s!"T{l}={showTy env fuel (resolve env fuel t)}" else s!"{l}={showTy env fuel t}")

end Driver.TypedefsDrv
