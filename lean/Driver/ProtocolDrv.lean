import PsycheModel.ParserProtocol
import PsycheModel.Generated.Recovery
/-! Line driver for the parser-protocol model (C01).  Input: `<kind names> | <ops>`; output: the cursor after each op
(1-based like the parser's `curTkIdx_`: index 0 is the marker token). -/
namespace Driver.ProtocolDrv
open PsycheModel.ParserProtocol PsycheModel.Generated

def handle (line : String) : String :=
  match line.splitOn "|" with
  | [ks, os] =>
    let names := (ks.trimAscii.toString.splitOn " ").filter (· ≠ "")
    match names.mapM Kind.ofName? with
    | none => "bad-kind"
    | some kinds =>
      -- the vector the parser sees: marker at index 0, then the lexed tokens
      let ts : Toks := Kind.Error :: kinds
      let ops := (os.trimAscii.toString.splitOn " ").filter (· ≠ "")
      let stepOp (cur : Nat) (op : String) : Nat :=
        let arg := (op.drop 2).toString
        if op.startsWith "c" then step ts cur .consume
        else if op.startsWith "m" then step ts cur (.matchTok ((Kind.ofName? arg).getD .Error))
        else if op.startsWith "s" then step ts cur (.skipTo ((Kind.ofName? arg).getD .Error))
        else if op.startsWith "i" then
          match Recovery.all[arg.toNat?.getD 3]? with
          | some (_, stop, skip) => step ts cur (.ignore stop skip)
          | none => cur
        else if op.startsWith "j" then
          let n := arg.toNat?.getD 0
          if n ≥ 1 then step ts cur (.backtrackTo n) else cur
        else cur
      let (_, out) := ops.foldl (fun (acc : Nat × List Nat) op => let c := stepOp acc.1 op; (c, acc.2 ++ [c])) (1, [])
      " ".intercalate (out.map toString)
  | _ => "bad-case"

end Driver.ProtocolDrv
