import PsycheModel.StmtCtx
/-! Line driver for C04's statement-context model.
`ctxadd` → the model's `operator+` table `a+b=c …`;  otherwise a statement in prefix notation
(`o` other, `b` break, `c` continue, `C s` case, `D s` default, `l s` label, `L s` loop, `S s` switch, `I s` if, `E s t` if-else,
`B{ s … }` block) → `diag=<0/1> valid=<0/1>` for a function body (context None). -/
namespace Driver.StmtCtxDrv
open PsycheModel.StmtCtx

mutual
partial def parseS : List String → Option (Stmt × List String)
  | [] => none
  | w :: rest =>
    match w with
    | "o" => some (.other, rest)
    | "b" => some (.brk, rest)
    | "c" => some (.cont, rest)
    | "C" => (parseS rest).map fun (s, r) => (.case s, r)
    | "D" => (parseS rest).map fun (s, r) => (.dflt s, r)
    | "l" => (parseS rest).map fun (s, r) => (.label s, r)
    | "L" => (parseS rest).map fun (s, r) => (.loop s, r)
    | "S" => (parseS rest).map fun (s, r) => (.switch s, r)
    | "I" => (parseS rest).map fun (s, r) => (.ifs s, r)
    | "E" => do
      let (s, r) ← parseS rest
      let (t, r) ← parseS r
      pure (.ifelse s t, r)
    | "B{" => (parseL rest).map fun (ss, r) => (.block ss, r)
    | _ => none
partial def parseL : List String → Option (Stmts × List String)
  | [] => none
  | "}" :: rest => some (.nil, rest)
  | ws => do
    let (s, r) ← parseS ws
    let (ss, r) ← parseL r
    pure (.cons s ss, r)
end

def b01 (b : Bool) : String := if b then "1" else "0"

def handle (line : String) : String :=
  let ws := (line.trimAscii.toString.splitOn " ").filter (· ≠ "")
  if ws == ["ctxadd"] then
    " ".intercalate (Ctx.all.flatMap fun a => Ctx.all.map fun b => s!"{a.code}+{b.code}={(a.add b).code}")
  else
    match parseS ws with
    | some (s, []) => s!"diag={b01 (diag .none s)} valid={b01 (valid false false s)}"
    | _ => "bad-case"

end Driver.StmtCtxDrv
