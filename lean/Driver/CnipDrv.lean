import PsycheModel.Cnip
import Driver.TextTableDrv
/-! Line driver for C19.  Input: `<facts> | <argv words, hex>`; facts = `name:exists:ppOk:syn:sem` (hex name, 0/1 flags),
blank separated (`-` for none).  Output: `<exit code> <message>`. -/
namespace Driver.CnipDrv
open PsycheModel.Cnip

def unhexWord (s : String) : Option Word :=
  (Driver.TextTableDrv.unhex s.toList).map (fun bs => bs.map (fun b => Char.ofNat b.toNat))

def parseFact (s : String) : Option (Word × FileFacts) :=
  match s.splitOn ":" with
  | [n, e, p, sy, se] => do
    let name ← unhexWord n
    pure (name, ⟨e == "1", fun _ _ => p == "1", fun _ _ => sy == "1", fun _ _ => se == "1"⟩)
  | _ => none

def handle (line : String) : String :=
  match line.splitOn "|" with
  | [fs, av] =>
    let fs := fs.trimAscii.toString
    let av := av.trimAscii.toString
    let facts := ((fs.splitOn " ").filter (fun x => x ≠ "" ∧ x ≠ "-")).mapM parseFact
    let argv := ((av.splitOn " ").filter (· ≠ "")).mapM (fun w => if w == "e" then some [] else unhexWord w)
    match facts, argv with
    | some facts, some argv =>
      let lookup (w : Word) : FileFacts :=
        match facts.find? (fun p => p.1 == w) with
        | some p => p.2
        | none => ⟨false, fun _ _ => false, fun _ _ => false, fun _ _ => false⟩
      match go argv lookup with
      | .exit0 => "0 -"
      | .exit1 m => s!"1 {m}"
    | _, _ => "bad-case"
  | _ => "bad-case"

end Driver.CnipDrv
