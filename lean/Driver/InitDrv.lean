import PsycheModel.Init
/-! Line driver for the initializer parser model (C04).  Input: blank-separated tokens: `e` assignment-expression, `m` identifier (member
name), `{ } , . [ ] =`.  Output: `<ok> <tree>` with the real parser's node kinds (`e` for an expression initializer; a brace-enclosed
initializer with a trailing comma is `Brace,`), or `FAIL`.  The whole string must be consumed. -/
namespace Driver.InitDrv
open PsycheModel.Init

def showDg : Dg → String
  | .field _ => "F"
  | .index _ => "(A e)"

partial def showI : I → String
  | .expr _ => "e"
  | .brace xs tc => "(Brace" ++ (if tc then "," else "") ++ String.join (xs.map (fun x => " " ++ showI x)) ++ ")"
  | .desig ds i => "(Desig" ++ String.join (ds.map (fun d => " " ++ showDg d)) ++ " " ++ showI i ++ ")"

def tokOf : String → Option Tok
  | "e" => some (.e 0) | "m" => some (.id 0) | "{" => some .lb | "}" => some .rb | "," => some .comma | "." => some .dot
  | "[" => some .lk | "]" => some .rk | "=" => some .eq
  | _ => none

def handle (line : String) : String :=
  let ws := (line.trimAscii.toString.splitOn " ").filter (· ≠ "")
  match ws.mapM tokOf with
  | none => "UNMODELLED"
  | some ts =>
    match init (3 * ts.length + 1) ts with   -- sufficient: theorem init_fuel_bound
    | some (i, []) => (if ok true i then "1 " else "0 ") ++ showI i
    | some (_, r) => "REST " ++ toString r.length
    | none => "FAIL"

end Driver.InitDrv
