import PsycheModel.Unparse
import Driver.TreeDrv
/-! Line driver for C03: reads the structural dump of `psyh tree`, rebuilds the tree and evaluates the hypotheses of the
C03 theorems on it.  Output: `alltok=<n> min=<a> max=<b> ordered=<0/1> contiguous=<0/1>`. -/
namespace Driver.UnparseDrv
open PsycheModel.Tree Driver.TreeDrv

def handle (line : String) : String :=
  match line.splitOn " | " with
  | dump :: _ =>
    match dump.splitOn " ; " with
    | _ :: recStrs =>
      if recStrs == ["no-root"] then "no-root"
      else
        let recs := (recStrs.filter (fun s => !s.trimAscii.toString.startsWith "R")).filterMap parseRec
        let nrecs := (recStrs.filter (fun s => !s.trimAscii.toString.startsWith "R")).length
        if recs.length ≠ nrecs then s!"unparsable-record ({recs.length}/{nrecs})"
        else
          let full := build recs false 0
          let ts := allTokens full
          let ord := decide (OrderedAll full)
          match minL ts, maxL ts with
          | some a, some b =>
            let contig := ord && ts.length == b - a + 1
            s!"alltok={ts.length} min={a} max={b} ordered={if ord then 1 else 0} contiguous={if contig then 1 else 0}"
          | _, _ => s!"alltok=0 min=- max=- ordered=1 contiguous=1"
    | _ => "bad-case"
  | _ => "bad-case"

end Driver.UnparseDrv
