import PsycheModel.Stmt
/-! Line driver for the statement parser model (C04).  Input: blank-separated tokens: `e` expression, `d` declaration (with its `;`),
`L` identifier, `; { } ( ) :` and the keywords `if else switch case default while do for goto continue break return`.  Output:
`<ok> <tree>` with the real parser's node kinds (`e` / `d` for the abstracted parts), or `FAIL`. -/
namespace Driver.StmtDrv
open PsycheModel.Stmt

def optE : Option Nat → String
  | none => ""
  | some _ => " e"

partial def showS : S → String
  | .expr _ => "(ExpressionStatement e)"
  | .empty => "ExpressionStatement"
  | .decl _ => "d"
  | .block xs => if xs.isEmpty then "CompoundStatement" else "(CompoundStatement " ++ " ".intercalate (xs.map showS) ++ ")"
  | .ite _ t => s!"(IfStatement e {showS t})"
  | .itel _ t el => s!"(IfStatement e {showS t} {showS el})"
  | .sw _ b => s!"(SwitchStatement e {showS b})"
  | .case _ s => s!"(CaseLabelStatement e {showS s})"
  | .dflt s => s!"(DefaultLabelStatement {showS s})"
  | .label _ s => s!"(IdentifierLabelStatement {showS s})"
  | .while_ _ b => s!"(WhileStatement e {showS b})"
  | .do_ b _ => s!"(DoStatement {showS b} e)"
  | .for_ i c k b =>
    let init := match i with | .none => "ExpressionStatement" | .expr _ => "(ExpressionStatement e)" | .decl _ => "d"
    s!"(ForStatement {init}{optE c}{optE k} {showS b})"
  | .goto _ => "(GotoStatement e)"
  | .cont => "ContinueStatement"
  | .brk => "BreakStatement"
  | .ret v => if v.isSome then "(ReturnStatement e)" else "ReturnStatement"

def tokOf : String → Option Tok
  | "e" => some (.e 0) | "d" => some (.d 0) | "L" => some (.id 0) | ";" => some .semi | "{" => some .lbrace | "}" => some .rbrace
  | "(" => some .lp | ")" => some .rp | ":" => some .colon | "if" => some .kif | "else" => some .kelse | "switch" => some .kswitch
  | "case" => some .kcase | "default" => some .kdefault | "while" => some .kwhile | "do" => some .kdo | "for" => some .kfor
  | "goto" => some .kgoto | "continue" => some .kcontinue | "break" => some .kbreak | "return" => some .kreturn
  | _ => none

def handle (line : String) : String :=
  let ws := (line.trimAscii.toString.splitOn " ").filter (· ≠ "")
  match ws.mapM tokOf with
  | none => "UNMODELLED"
  | some ts =>
    match stmt (2 * ts.length + 1) ts with   -- sufficient: theorem stmt_fuel_bound
    | some (s, []) => (if ok s then "1 " else "0 ") ++ showS s
    | _ => "FAIL"

end Driver.StmtDrv
