import PsycheModel.ClimbReal
/-! Line driver for C06.  Input: blank-separated tokens, `a` = an atomic operand, otherwise an operator token's
`SyntaxKind` name.  Output: the model's tree as an S-expression with the node kinds of `kindOfNAryOperatorSyntax`,
`FAIL` when the model's parse fails or leaves tokens, `UNMODELLED` for tokens outside the model (`?`, `:`). -/
namespace Driver.ClimbDrv
open PsycheModel.Climb PsycheModel.Generated

partial def showE : E → String
  | .atom _ => "a"
  | .bin o l r => s!"({(Facts.kindOfNAry (operatorTokens.getD o Kind.CommaToken)).name} {showE l} {showE r})"

def handle (line : String) : String :=
  let ws := (line.trimAscii.toString.splitOn " ").filter (· ≠ "")
  let toks := ws.mapM fun w =>
    if w == "a" then some (Tok.atom 0)
    else match Kind.ofName? w with
      | some k => if operatorTokens.contains k && k != Kind.QuestionToken then some (Tok.op (operatorTokens.idxOf k)) else none
      | none => none
  match toks with
  | none => "UNMODELLED"
  | some ts =>
    match parse realTbl (2 * ts.length + 4) 1 ts with
    | some (e, []) => showE e
    | _ => "FAIL"

end Driver.ClimbDrv
