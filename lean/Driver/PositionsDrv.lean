import PsycheModel.Positions
import Driver.TextTableDrv
/-! Line driver for C16.  Input: `<hex text> <offset> <offset> …`.
Output: per offset `<line>:<col>/<locLine>:<locCol>/<hex excerpt>`; then ` | L <line starts> | R <off>:<N> …`. -/
namespace Driver.PositionsDrv
open PsycheModel.Positions

/-- unit offset of every byte position (for locating `#` in units while scanning bytes) -/
def isBlank (b : UInt8) : Bool := b == 32 || b == 9

/-- line markers as `Lexer::lex` records them, for texts whose directives stand alone on their physical line:
`[blanks] # [blanks] [line blanks] digits …` -/
partial def directivesOf (bytes : List UInt8) : List Directive :=
  let rec lines (bs : List UInt8) (unitOff : Nat) (acc : List Directive) : List Directive :=
    match bs with
    | [] => acc.reverse
    | _ =>
      let line := bs.takeWhile (· ≠ 10)
      let rest := (bs.dropWhile (· ≠ 10)).drop 1
      let lead := line.takeWhile isBlank
      let acc :=
        match line.drop lead.length with
        | 35 :: after =>
          let after := after.dropWhile isBlank
          let after := if after.take 4 == "line".toList.map (fun c => c.toNat.toUInt8) then (after.drop 4).dropWhile isBlank else after
          let ds := after.takeWhile (fun b => 48 ≤ b && b ≤ 57)
          if ds.isEmpty then acc
          else ⟨unitOff + (unitsOf lead).length, ds.foldl (fun n d => n * 10 + (d.toNat - 48)) 0⟩ :: acc
        | _ => acc
      if (bs.dropWhile (· ≠ 10)).isEmpty then acc.reverse
      else lines rest (unitOff + (unitsOf line).length + 1) acc
  lines bytes 0 [⟨0, 1⟩]

def handle (line : String) : String :=
  match (line.trimAscii.toString.splitOn " ").filter (· ≠ "") with
  | hx :: offs =>
    match Driver.TextTableDrv.unhex hx.toList, offs.mapM String.toNat? with
    | some bytes, some offs =>
      let u := unitsOf bytes
      let dirs := directivesOf bytes
      let starts := lineStarts u
      let one (off : Nat) : String :=
        let p := position u dirs off
        let l := tokenLocation u off
        let phys := lineOf starts off
        let col := colOf starts off phys
        s!"{p.1}:{p.2}/{l.1}:{l.2}/{Driver.TextTableDrv.hex (excerpt bytes phys col)}"
      let ds := " ".intercalate ((dirs.drop 1).map (fun d => s!"{d.offset}:{d.lineno}"))
      s!"{" ".intercalate (offs.map one)} | L {" ".intercalate (starts.map toString)} | R {ds}"
    | _, _ => "bad-case"
  | _ => "bad-case"

end Driver.PositionsDrv
