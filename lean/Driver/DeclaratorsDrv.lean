import PsycheModel.Declarators
/-! Line driver for C07: reads the declarator trees printed by `psyh declarators` (the `ast=` part of its answer, i.e. what
the real parser built), runs the model of the binder on them and prints the symbols it binds, in the harness's notation:
`<Kind>:<name>:<type>;…` with `{<specifier text>}` standing for the opaque base types. -/
namespace Driver.DeclaratorsDrv
open PsycheModel.Declarators

def qualOf : Char → Option Qual
  | 'c' => some .const | 'v' => some .volatile | 'r' => some .restrict | 'a' => some .atomic | _ => none

mutual
partial def parseDecl : List String → Option (Decl × List String)
  | [] => none
  | w :: rest =>
    if w == "A" || w == "B0" then some (.abstract, rest)
    else if w == "R" then (parseDecl rest).map fun (d, r) => (.paren d, r)
    else if w == "S" then (parseDecl rest).map fun (d, r) => (.arr d, r)
    else if w == "B" then (parseDecl rest).map fun (d, r) => (.bitfield d, r)
    else if w.startsWith "I:" then some (.ident (w.drop 2).toString, rest)
    else if w.startsWith "P:" then
      let q := (w.drop 2).toString
      let qs := if q == "-" then some [] else q.toList.mapM qualOf
      qs.bind fun qs => (parseDecl rest).map fun (d, r) => (.ptr qs d, r)
    else if w.startsWith "F:" then
      match w.splitOn ":" with
      | [_, e, k] => do
        let k ← k.toNat?
        let (d, r) ← parseDecl rest
        let (ps, r) ← parseParams k r
        pure (.fn d ps (e == "1"), r)
      | _ => none
    else none
partial def parseParams : Nat → List String → Option (Params × List String)
  | 0, ws => some (.nil, ws)
  | k + 1, spec :: ws => do
    let (d, r) ← parseDecl ws
    let (ps, r) ← parseParams k r
    pure (.cons spec d ps, r)
  | _, [] => none
end

partial def parseDecls : Nat → List String → Option (List Decl × List String)
  | 0, ws => some ([], ws)
  | k + 1, ws => do
    let (d, r) ← parseDecl ws
    let (ds, r) ← parseDecls k r
    pure (d :: ds, r)

def qualStr (q : Quals) : String :=
  (if q.c then "c" else "") ++ (if q.v then "v" else "") ++ (if q.r then "r" else "") ++ (if q.a then "a" else "")

partial def tyStr : Ty → String
  | .base s => "{" ++ s ++ "}"
  | .qual q t => s!"(Q{qualStr q}_{tyStr t})"
  | .ptr .none t => s!"(Ptr_{tyStr t})"
  | .ptr .arr t => s!"(Ptr/arr_{tyStr t})"
  | .ptr .fn t => s!"(Ptr/fn_{tyStr t})"
  | .arr t => s!"(Arr_{tyStr t})"
  | .fn r ps v => s!"(Fn_{tyStr r}_[{"_".intercalate (ps.map tyStr)}]{if v then "_..." else ""})"

def kindStr : SymK → String
  | .variable => "Variable" | .function => "Function" | .parameter => "Parameter" | .field => "Field" | .typedef => "Typedef"

def symStr (s : Sym) : String := s!"{kindStr s.kind}:{if s.name == "" then "<anon>" else s.name}:{tyStr s.ty}"

def record (ws : List String) : Option (List Sym) :=
  match ws with
  | c :: spec :: n :: rest => do
    let ctx ← (match c with
      | "Dv" => some Ctx.object | "Dx" => some Ctx.object | "Dt" => some Ctx.typedef | "Dm" => some Ctx.member | _ => none)
    let n ← n.toNat?
    let (ds, r) ← parseDecls n rest
    if !r.isEmpty then none
    let (st, syms) ← bindDeclaration ctx (.base spec) ds []
    if !st.isEmpty then none
    pure syms
  | _ => none

/-- input: the harness's answer line (or just its `ast= …` part) -/
def handle (line : String) : String :=
  let body := ((line.splitOn " | ").headD "").trimAscii.toString
  if !body.startsWith "ast=" then "no-ast"
  else
    let recs := ((body.drop 4).toString.splitOn " ; ").map fun r => (r.trimAscii.toString.splitOn " ").filter (· ≠ "")
    let recs := recs.filter fun r => r ≠ [] ∧ r ≠ ["-"]
    match recs.mapM record with
    | none => "bad-ast"
    | some syms => "syms= " ++ (if syms.flatten.isEmpty then "-" else ";".intercalate (syms.flatten.map symStr))

end Driver.DeclaratorsDrv
