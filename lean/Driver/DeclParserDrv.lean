import PsycheModel.DeclPrint
/-! Line driver for the declarator-parser model.  Input: a string of token letters
(`*` `(` `)` `[` `]` `,` `.` ellipsis, `3` number, `x` identifier (numbered x1, x2 … in order), `c v r a` qualifiers,
`i` / `h` specifiers `int` / `char`, `;` stop).  Output: the declarator tree in the notation of `psyh declarators`
preceded by the number of declarators of the list, or `none`. -/
namespace Driver.DeclParserDrv
open PsycheModel.Declarators PsycheModel.DeclParser

def toToks : List Char → Nat → Option (List Tok)
  | [], _ => some []
  | c :: rest, n =>
    let one (t : Tok) (n' : Nat) := (toToks rest n').map (t :: ·)
    match c with
    | '*' => one .star n | '(' => one .lparen n | ')' => one .rparen n | '[' => one .lbrack n | ']' => one .rbrack n
    | ',' => one .comma n | '.' => one .ellipsis n | '3' => one .num n | ';' => one .stop n
    | 'x' => one (.ident s!"x{n + 1}") (n + 1)
    | 'c' => one (.qual .const) n | 'v' => one (.qual .volatile) n | 'r' => one (.qual .restrict) n | 'a' => one (.qual .atomic) n
    | 'i' => one (.spec "int") n | 'h' => one (.spec "char") n
    | _ => none

def qch : Qual → String | .const => "c" | .volatile => "v" | .restrict => "r" | .atomic => "a"

mutual
partial def showD : Decl → String
  | .ident n => s!"I:{n}"
  | .abstract => "A"
  | .ptr qs d => s!"P:{if qs.isEmpty then "-" else String.join (qs.map qch)} {showD d}"
  | .paren d => s!"R {showD d}"
  | .bitfield d => s!"B {showD d}"
  | .arr d => s!"S {showD d}"
  | .fn d ps ell => s!"F:{if ell then 1 else 0}:{countPs ps} {showD d}{showPs ps}"
partial def showPs : Params → String
  | .nil => ""
  | .cons b d rest => s!" {b} {showD d}{showPs rest}"
partial def countPs : Params → Nat
  | .nil => 0
  | .cons _ _ rest => 1 + countPs rest
end

def letter : Tok → String
  | .star => "*" | .lparen => "(" | .rparen => ")" | .lbrack => "[" | .rbrack => "]" | .comma => "," | .ellipsis => "." | .num => "3"
  | .stop => ";" | .ident _ => "x" | .qual q => qch q | .spec s => if s == "int" then "i" else "h"

/-- the declarator list printed back with `pr` (theorems `parse_print*` of Props/C07.lean are about `pr` and `wf`) -/
def printList : List Decl → List Tok
  | [] => [.stop]
  | [d] => pr d [.stop]
  | d :: ds => pr d (.comma :: printList ds)

def handle (line : String) : String :=
  match toToks line.trimAscii.toString.toList 0 with
  | none => "bad-case"
  | some ts =>
    match parseDeclaratorList (ts.length + 1) ts with
    | some ds => s!"{ds.length} {" ".intercalate (ds.map showD)} | wf={if ds.all (wf .concrete) then 1 else 0} pr={String.join ((printList ds).map letter)}"
    | none => "none"

end Driver.DeclParserDrv
