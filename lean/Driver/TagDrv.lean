import PsycheModel.TagBody
/-! Line driver for the struct / union / enum specifier parser model (C04).  Input: blank-separated tokens: `struct`, `enum`, `T` identifier
(tag or enumeration constant), `s` type specifier, `d` declarator, `e` constant expression, `{ } ; , : =`.  Output: `<ok> <tree>` with
`(Struct[T] (Field <number of specifiers> D|B|U ...) (Incomplete <n>) ...)` (D a plain declarator, B a bit-field with a declarator, U one
without), `(Enum[T] (E[=][,]) ...)`, `StructRef` / `EnumRef`, or `FAIL`.  The whole string must be consumed. -/
namespace Driver.TagDrv
open PsycheModel.TagBody

def showMD : MD → String
  | .plain _ => "D"
  | .bitfield (some _) _ => "B"
  | .bitfield none _ => "U"

def showM : M → String
  | .incomplete ss => s!"(Incomplete {ss.length})"
  | .field ss ds => s!"(Field {ss.length}" ++ String.join (ds.map (fun d => " " ++ showMD d)) ++ ")"

def showEn (x : En) : String := "E" ++ (if x.val.isSome then "=" else "") ++ (if x.comma then "," else "")

def showT : T → String
  | .suRef _ => "StructRef"
  | .enRef _ => "EnumRef"
  | .su t ms => "(Struct" ++ (if t.isSome then "T" else "") ++ String.join (ms.map (fun m => " " ++ showM m)) ++ ")"
  | .en t es => "(Enum" ++ (if t.isSome then "T" else "") ++ String.join (es.map (fun x => " " ++ showEn x)) ++ ")"

def tokOf : String → Option Tok
  | "struct" => some .ksu | "enum" => some .kenum | "T" => some (.id 0) | "s" => some (.sp 0) | "d" => some (.dcl 0) | "e" => some (.e 0)
  | "{" => some .lb | "}" => some .rb | ";" => some .semi | "," => some .comma | ":" => some .colon | "=" => some .eq
  | _ => none

def handle (line : String) : String :=
  let ws := (line.trimAscii.toString.splitOn " ").filter (· ≠ "")
  match ws.mapM tokOf with
  | none => "UNMODELLED"
  | some ts =>
    match tag ts.length ts with   -- sufficient: theorem tag_fuel_free
    | some (t, []) => (if ok t then "1 " else "0 ") ++ showT t
    | some (_, r) => "REST " ++ toString r.length
    | none => "FAIL"

end Driver.TagDrv
