import PsycheModel.ExprReal
/-! Line driver for C06, all layers.  Input: blank-separated tokens: `a` = an atomic operand (identifier / constant),
`T` = a type name, otherwise a token's `SyntaxKind` name.  Output: `<ok> <tree>`: the model's tree as an S-expression with the
node kinds the parser gives (`kindOfNAryOperatorSyntax`, the prefix-operator table …) and whether the tree satisfies the
grammar predicate `ok` of the round-trip theorem; `FAIL` when the model's parse fails or leaves tokens; `UNMODELLED` for
tokens outside the model. -/
namespace Driver.ExprDrv
open PsycheModel.Expr PsycheModel.Generated

def kindAt (o : Nat) : Kind := opTokens.getD o Kind.Error

partial def showE : E → String
  | .atom _ => "a"
  | .bin o l r => s!"({(Facts.kindOfNAry (kindAt o)).name} {showE l} {showE r})"
  | .cond c t f => s!"(ConditionalExpression {showE c} {showE t} {showE f})"
  | .condG c f => s!"(ConditionalExpression {showE c} {showE f})"
  | .paren e => s!"(ParenthesizedExpression {showE e})"
  | .cast e => s!"(CastExpression TypeName {showE e})"
  | .pre o e => s!"({(Facts.prefixNode (kindAt o)).name} {showE e})"
  | .post o e => s!"({if kindAt o == Kind.PlusPlusToken then "PostIncrementExpression" else "PostDecrementExpression"} {showE e})"
  | .idx e i => s!"(ElementAccessExpression {showE e} {showE i})"
  | .mem d e _ => s!"({if d == 0 then "DirectMemberAccessExpression" else "IndirectMemberAccessExpression"} {showE e} a)"
  | .call f as => "(CallExpression " ++ " ".intercalate (showE f :: as.map showE) ++ ")"

def tokOf (w : String) : Option Tok :=
  if w == "a" then some (.atom 0)
  else if w == "T" then some .ty
  else match Kind.ofName? w with
    | some .QuestionToken => some .q
    | some .ColonToken => some .colon
    | some .OpenParenToken => some .lp
    | some .CloseParenToken => some .rp
    | some .OpenBracketToken => some .lb
    | some .CloseBracketToken => some .rb
    | some .DotToken => some (.dot 0)
    | some .ArrowToken => some (.dot 1)
    | some k => if opTokens.contains k then some (.op (opTokens.idxOf k)) else none
    | none => none

def handle (line : String) : String :=
  let ws := (line.trimAscii.toString.splitOn " ").filter (· ≠ "")
  match ws.mapM tokOf with
  | none => "UNMODELLED"
  | some ts =>
    match nary realT (4 * ts.length + 3) 1 ts with   -- sufficient: theorem nary_fuel_bound
    | some (e, []) => (if ok realT e then "1 " else "0 ") ++ showE e
    | _ => "FAIL"

end Driver.ExprDrv
