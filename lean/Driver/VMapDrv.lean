import PsycheModel.VMap
/-! Line driver for the VersionedMap model and its snapshot spec (C20).
Input: one history per line, ops separated by blanks: `i<k>,<v>` (insertOrAssign) or `s<r>` (applyRevision).
Output: `M` then, per op, `<cur>:{k=v;…}` (keys ascending) for the model; `S` likewise for the spec. -/
namespace Driver.VMapDrv
open PsycheModel.VMap

def parseOp (w : String) : Option (Op Nat Nat) :=
  if w.startsWith "i" then
    match (w.drop 1).toString.splitOn "," with
    | [a, b] => match a.toNat?, b.toNat? with
      | some k, some v => some (.ins k v)
      | _, _ => none
    | _ => none
  else if w.startsWith "s" then
    match (w.drop 1).toString.toNat? with
    | some r => some (.switch r)
    | none => none
  else none

def keysOf (ops : List (Op Nat Nat)) : List Nat :=
  let ks := ops.filterMap (fun o => match o with | .ins k _ => some k | _ => none)
  (ks.eraseDups.toArray.qsort (· < ·)).toList

def showMap (keys : List Nat) (get : Nat → Option Nat) : String :=
  "{" ++ ";".intercalate (keys.filterMap (fun k => (get k).map (fun v => s!"{k}={v}"))) ++ "}"

/-- Snapshot specification: the content of every revision ever created is remembered; a switch shows
the remembered content. -/
structure Spec where
  snaps : List (Nat → Option Nat) := [fun _ => none]
  cur : Nat := 0

def Spec.step (s : Spec) : Op Nat Nat → Spec
  | .ins k v =>
    let c := s.snaps.getD s.cur (fun _ => none)
    { snaps := s.snaps ++ [fun k' => if k = k' then some v else c k'], cur := s.snaps.length }
  | .switch r => { s with cur := r }

def Spec.get (s : Spec) : Nat → Option Nat := s.snaps.getD s.cur (fun _ => none)

def handle (line : String) : String :=
  let ws := (line.trimAscii.toString.splitOn " ").filter (· ≠ "")
  match ws.mapM parseOp with
  | none => "bad-op"
  | some ops =>
    let keys := keysOf ops
    let (_, mo) := ops.foldl (fun (acc : St Nat Nat × List String) op =>
      let s' := step acc.1 op
      (s', acc.2 ++ [s!"{s'.cur}:{showMap keys s'.map.get}"])) (init, [])
    let (_, so) := ops.foldl (fun (acc : Spec × List String) op =>
      let s' := acc.1.step op
      (s', acc.2 ++ [s!"{s'.cur}:{showMap keys s'.get}"])) ({}, [])
    let valid := if Valid ops then "valid" else "invalid"
    s!"{valid} M {" ".intercalate mo} S {" ".intercalate so}"

end Driver.VMapDrv
