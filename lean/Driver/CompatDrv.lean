import PsycheModel.Compat
import PsycheModel.Assign
/-! Line driver for C11's compatibility model.  Input: the harness's answer `"<n> | <type> ; <type> … | <bits>"` (types in prefix
form); output: the model's bits for every ordered pair and the four flag combinations, in the harness's order. -/
namespace Driver.CompatDrv
open PsycheModel.Compat

def listToTyList : List Ty → TyList
  | [] => .nil
  | t :: ts => .cons t (listToTyList ts)

/-- prefix-form reader; `none` on malformed input -/
partial def readTy : List String → Option (Ty × List String)
  | [] => none
  | w :: rest =>
    if w == "V" then some (.void, rest)
    else if w == "E" then some (.error, rest)
    else if w == "P" then (readTy rest).map fun (t, r) => (.ptr t, r)
    else if w == "A" then (readTy rest).map fun (t, r) => (.arr t, r)
    else if w.startsWith "B" then (w.drop 1).toNat?.map fun k => (.basic k, rest)
    else if w.startsWith "Q" then
      match (w.drop 1).toNat? with
      | some q => (readTy rest).map fun (t, r) => (.qual q t, r)
      | none => none
    else if w.startsWith "T" then
      match ((w.drop 1).toString.splitOn ":").map String.toNat? with
      | [some k, some i] => some (.tag k i, rest)
      | _ => none
    else if w.startsWith "F" then
      match ((w.drop 1).toString.splitOn ":").map String.toNat? with
      | [some form, some n] =>
        match readTy rest with
        | none => none
        | some (ret, r) =>
          let rec params (k : Nat) (r : List String) (acc : List Ty) : Option (List Ty × List String) :=
            match k with
            | 0 => some (acc.reverse, r)
            | k + 1 => match readTy r with
              | some (t, r') => params k r' (t :: acc)
              | none => none
          match params n r [] with
          | some (ps, r') =>
            let f : Form := if form == 0 then .unspecified else if form == 1 then .specifiedAsEmpty else .nonEmpty
            some (.fn ret f (listToTyList ps), r')
          | none => none
      | _ => none
    else none

def handle (line : String) : String :=
  match (line.trimAscii.toString.splitOn " | ").take 3 with
  | [_, tys, _] =>
    let parsed := (tys.splitOn " ; ").map fun s => readTy ((s.splitOn " ").filter (· ≠ ""))
    if parsed.any (fun p => match p with | some (_, []) => false | _ => true) then "BAD"
    else
      let ts := parsed.filterMap fun p => p.map (·.1)
      String.ofList (ts.flatMap fun t1 => ts.flatMap fun t2 =>
        [(false, false), (false, true), (true, false), (true, true)].map fun (va, iq) => if compat t1 t2 va iq then '1' else '0')
      ++ " | " ++
      String.ofList (ts.flatMap fun t1 => ts.flatMap fun t2 =>
        [false, true].map fun n => if PsycheModel.Assign.assignableFrom t1 t2 n then '1' else '0')
  | _ => "BAD"

end Driver.CompatDrv
