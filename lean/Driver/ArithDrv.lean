import PsycheModel.ArithSpec
import Driver.SpecifiersDrv
/-! Line driver for C13.  Commands:
`conv L R`, `promo K`, `bin <op> L R`, `asg <op> L R`, `const <hex spelling>`; answer `<model> <spec>`. -/
namespace Driver.ArithDrv
open PsycheModel.Specifiers (BK)
open PsycheModel.Arith PsycheModel.ArithSpec
open Driver.SpecifiersDrv (bkName)

def bkOf (s : String) : Option BK := BK.all.find? (fun k => bkName k == s)

def opOf : String → Option Op
  | "mul" => some .mul | "div" => some .div | "rem" => some .rem | "add" => some .add | "sub" => some .sub
  | "shl" => some .shl | "shr" => some .shr | "lt" => some .lt | "gt" => some .gt | "le" => some .le
  | "ge" => some .ge | "eq" => some .eq | "ne" => some .ne | _ => none

def showO : Option BK → String
  | some k => bkName k
  | none => "ERR"

def digitVal (c : Char) : Option Nat :=
  if '0' ≤ c ∧ c ≤ '9' then some (c.toNat - 48)
  else if 'a' ≤ c ∧ c ≤ 'f' then some (c.toNat - 87)
  else if 'A' ≤ c ∧ c ≤ 'F' then some (c.toNat - 55)
  else none

/-- `std::stoull(text, nullptr, 0)`: base from the prefix, digits up to the first non-digit -/
def stoull0 (cs : List Char) : Nat :=
  let (base, ds) := match cs with
    | '0' :: 'x' :: r => (16, r)
    | '0' :: 'X' :: r => (16, r)
    | '0' :: r => (8, '0' :: r)
    | r => (10, r)
  let ds := ds.takeWhile (fun c => match digitVal c with | some d => d < base | none => false)
  ds.foldl (fun acc c => acc * base + (digitVal c).getD 0) 0

/-- `Lexeme::checkHexAndOctalPrefix` -/
def octOrHex (cs : List Char) : Bool :=
  match cs with
  | ['0'] => true
  | '0' :: c :: _ => c == 'x' || c == 'X' || ('0' ≤ c && c ≤ '7')
  | _ => false

def suffixName : Suffix → String
  | .none => "none" | .u => "u" | .l => "l" | .lu => "lu" | .ll => "ll" | .llu => "llu"

/-- an integer constant on a configured platform: `<model with the platform's table> <specification on the platform>` -/
def pconstLine (p : Platform) (cs : List Char) : String :=
  let fl := scanNum cs
  let sfx := intSuffix fl
  let v := stoull0 cs
  let oh := octOrHex cs
  let spec := match firstFit p v (table641 oh sfx) with
    | some k => bkName k
    | none => "-"
  s!"{bkName (intConstTypeM (maxVal p) oh sfx v)} {spec}"

def platOf : String → Option Platform
  | "lp64" => some lp64 | "ilp32" => some ilp32 | "ip16" => some ip16
  | _ => none

def constLine (cs : List Char) : String :=
  if cs.any (fun c => c == '\'') then
    s!"{bkName (charConstType cs)} -"
  else
    let isHex := match cs with | '0' :: 'x' :: _ => true | '0' :: 'X' :: _ => true | _ => false
    let isFloat := cs.any (· == '.') || (!isHex && cs.any (fun c => c == 'e' || c == 'E')) || (isHex && cs.any (fun c => c == 'p' || c == 'P'))
    if isFloat then
      -- specification (6.4.4.2p4), read off the spelling independently: the suffix is the last character
      let spec := match cs.getLast? with
        | some 'f' => BK.Float | some 'F' => BK.Float | some 'l' => BK.LongDouble | some 'L' => BK.LongDouble | _ => BK.Double
      s!"{bkName (floatConstType (scanNum cs))} {bkName spec}"
    else
      let fl := scanNum cs
      let sfx := intSuffix fl
      let v := stoull0 cs
      let oh := octOrHex cs
      let spec := match firstFit lp64 v (table641 oh sfx) with
        | some k => bkName k
        | none => "-"
      s!"{bkName (intConstType oh sfx v)} {spec}"

def handle (line : String) : String :=
  match (line.trimAscii.toString.splitOn " ").filter (· ≠ "") with
  | ["conv", l, r] => match bkOf l, bkOf r with
    | some l, some r => s!"{bkName (arithConv l r)} {bkName (usualArith lp64 l r)}"
    | _, _ => "bad-case"
  | ["promo", k] => match bkOf k with
    | some k => s!"{bkName (intPromote k)} {bkName (promote lp64 k)}"
    | none => "bad-case"
  | ["bin", o, l, r] => match opOf o, bkOf l, bkOf r with
    | some o, some l, some r => s!"{showO (binType o l r)} {showO (binSpec lp64 o l r)}"
    | _, _, _ => "bad-case"
  | ["asg", o, l, r] => match opOf o, bkOf l, bkOf r with
    | some o, some l, some r => s!"{showO (assignType o l r)} {showO (assignSpec o l r)}"
    | _, _, _ => "bad-case"
  | ["pconst", pl, hx] => match platOf pl, Driver.TextTableDrv.unhex hx.toList with
    | some p, some bytes => pconstLine p (bytes.map (fun b => Char.ofNat b.toNat))
    | _, _ => "bad-case"
  | ["const", hx] => match Driver.TextTableDrv.unhex hx.toList with
    | some bytes => constLine (bytes.map (fun b => Char.ofNat b.toNat))
    | none => "bad-case"
  | _ => "bad-case"

end Driver.ArithDrv
