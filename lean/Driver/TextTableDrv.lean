import PsycheModel.TextTable
/-! Line driver for the TextElementTable model (C18).
Input: one history per line; ops `i<hex>` (findOrInsert) / `f<hex>` (find).
Output: per op the identity (element index) or `-`; then `|`, the table size, `|`, the element texts (hex). -/
namespace Driver.TextTableDrv
open PsycheModel.TextTable

def hexVal (c : Char) : Option Nat :=
  if '0' ≤ c ∧ c ≤ '9' then some (c.toNat - '0'.toNat)
  else if 'a' ≤ c ∧ c ≤ 'f' then some (c.toNat - 'a'.toNat + 10)
  else none

def unhex : List Char → Option Bytes
  | [] => some []
  | a :: b :: t => do
    let x ← hexVal a; let y ← hexVal b; let r ← unhex t
    pure (UInt8.ofNat (x * 16 + y) :: r)
  | _ => none

def hexDigit (n : Nat) : Char := if n < 10 then Char.ofNat (48 + n) else Char.ofNat (87 + n)
def hex (b : Bytes) : String := String.ofList (b.flatMap (fun c => [hexDigit (c.toNat / 16), hexDigit (c.toNat % 16)]))

/-- `TextElement::hashCode` (PJW variant from QtCore), with `char` sign extension as on x86-64. -/
def pjw (w : Bytes) : Nat :=
  (w.foldl (fun (h : UInt32) c =>
    let sx : UInt32 := if c.toNat < 128 then c.toUInt32 else c.toUInt32 + 0xffffff00
    let h1 := (h <<< 4) + sx
    let h2 := h1 ^^^ ((h1 &&& 0xf0000000) >>> 23)
    h2 &&& 0x0fffffff) 0).toNat

def handle (line : String) : String :=
  let ws := (line.trimAscii.toString.splitOn " ").filter (· ≠ "")
  let step (acc : Option (St × List String)) (w : String) : Option (St × List String) := do
    let (s, out) ← acc
    let cs := w.toList
    match cs with
    | 'i' :: hx => do
      let b ← unhex hx
      let r := findOrInsert pjw s b
      pure (r.1, out ++ [toString r.2])
    | 'f' :: hx => do
      let b ← unhex hx
      pure (s, out ++ [match find pjw s b with | some i => toString i | none => "-"])
    | _ => none
  match ws.foldl step (some (init, [])) with
  | none => "bad-op"
  | some (s, out) =>
    s!"{" ".intercalate out} | {s.elements.length} | {",".intercalate (s.elements.map hex)}"

end Driver.TextTableDrv
