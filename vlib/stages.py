"""Stages shared by all property checks."""
import os, time
from . import build, leanb
from .common import ROOT


TRUSTED = ["Lean 4.33.0 kernel (lake build); thorough tier additionally leanchecker on the property module",
           "axioms allowed: propext, Classical.choice, Quot.sound (audited per theorem with #print axioms); no native_decide, bv_decide, sorry, admit or user axioms",
           "the hand-written Lean spec (my reading of the property) and, where the model is hand-written, the correspondence harness psyh/psymodel, generators and canonicalisers in /verif",
           "g++ 12.2, libstdc++, ASan/UBSan where used"]


def lean_stage(ctx, prop_mod, extra_targets=()):
    """lake build + audit.  Returns True when every obligation of the property is discharged.
    On failure the caller runs its failing-input search and finally reports no-failing-input-found."""
    ctx.translator_errors = build.generate()
    ok, log = leanb.lake_build([prop_mod, "psymodel"] + list(extra_targets))
    ctx.cov["trusted_base"] = list(TRUSTED)
    if not ok:
        leanb.lake_build(["psymodel"] + list(extra_targets))      # the driver must still reflect the current generated data
        ctx.notes["lake_build_log_tail"] = log[-3000:]
        ctx.log("lake build FAILED")
        ctx.lean_failure = "lake build of %s failed: %s" % (prop_mod, _first_error(log))
        # count what exists, nothing discharged
        ctx.cov["obligations"] = max(1, ctx.cov["obligations"])
        return False
    a = leanb.audit(prop_mod)
    ctx.cov["obligations"] = a["obligations"]
    ctx.cov["discharged"] = a["discharged"]
    ctx.cov["checker_cmd"] = a["checker_cmd"]
    ctx.cov["trusted_base"].append("axioms actually used by the theorems of this property: %s" % (a["axioms_used"] or ["none"]))
    ctx.notes["property_theorems"] = a["property_theorems"]
    ctx.notes["lean_modules"] = a["modules"]
    if a["problems"]:
        ctx.lean_failure = "; ".join(a["problems"][:5])
        ctx.log("audit problems:", ctx.lean_failure)
        return False
    if not ctx.quick:
        okc, logc = leanb.leanchecker(prop_mod)
        ctx.notes["leanchecker"] = "ok" if okc else logc
        if not okc:
            ctx.lean_failure = "leanchecker rejected %s: %s" % (prop_mod, logc[-300:])
            return False
    ctx.log("lean: %d obligations, %d discharged, axioms %s" % (a["obligations"], a["discharged"], a["axioms_used"]))
    return True


def _first_error(log):
    for line in log.split("\n"):
        if "error" in line:
            return line.strip()[:300]
    return log[-300:]


def cxx_stage(ctx, flavour="ndebug", targets=("psyh",)):
    t = time.time()
    ok, log, d = build.build(flavour, targets)
    ctx.log("c++ build (%s) %s in %.1fs" % (flavour, "ok" if ok else "FAILED", time.time() - t))
    if not ok:
        ctx.notes["cxx_build_log_tail"] = log[-3000:]
        raise RuntimeError("building /repo + harness (%s) failed: %s" % (flavour, _first_error(log)))
    return d


def run_both(ctx, component, lines, flavour="ndebug", args=(), model_component=None, timeout=3000):
    """Run the same case lines through psyh (real code) and psymodel (Lean model). Returns (impl, model) line lists."""
    from .common import sh
    text = "\n".join(lines) + "\n"
    rc, out, err = sh([build.psyh(flavour), component] + list(args), input=text, timeout=timeout,
                      env={"ASAN_OPTIONS": "detect_leaks=0:new_delete_type_mismatch=0", "UBSAN_OPTIONS": "print_stacktrace=1"})
    impl = out.split("\n")
    if impl and impl[-1] == "":
        impl.pop()
    if rc != 0:
        # a crash / sanitizer report while running a case is a result: identify the case
        k = len(impl)
        culprit = lines[k] if k < len(lines) else (lines[-1] if lines else "")
        raise HarnessCrash(component, flavour, rc, culprit, err[-3000:])
    model = leanb.model(model_component or component, text, timeout=timeout)
    if len(impl) != len(lines) or len(model) != len(lines):
        raise RuntimeError("%s: line count mismatch impl=%d model=%d cases=%d" % (component, len(impl), len(model), len(lines)))
    return impl, model


class HarnessCrash(Exception):
    def __init__(self, component, flavour, rc, case, stderr):
        super().__init__("psyh %s (%s) died with status %s on case %r: %s" % (component, flavour, rc, case[:200], stderr[-400:]))
        self.component, self.flavour, self.rc, self.case, self.stderr = component, flavour, rc, case, stderr


def lean_unproved(ctx, pid, prop_mod):
    """Called at the end when the Lean stage failed and no failing input was found by the search."""
    if not ctx.violations:
        ctx.report("lean:" + pid, getattr(ctx, "lean_failure", "Lean obligations not discharged"),
                   {"theorem_or_module": prop_mod, "detail": getattr(ctx, "lean_failure", "")}, no_input=True)
