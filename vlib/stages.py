"""Stages shared by all property checks."""
import os, time
from . import build, leanb
from .common import ROOT, REPO


TRUSTED = ["Lean 4.33.0 kernel (lake build); thorough tier additionally leanchecker on the property module",
           "axioms allowed: propext, Classical.choice, Quot.sound (audited per theorem with #print axioms); no native_decide, bv_decide, sorry, admit or user axioms",
           "the hand-written Lean spec (my reading of the property) and, where the model is hand-written, the correspondence harness psyh/psymodel, generators and canonicalisers in /verif",
           "g++ 12.2, libstdc++, ASan/UBSan where used"]


def lean_stage(ctx, prop_mod, extra_targets=()):
    """lake build + audit.  Returns True when every obligation of the property is discharged.
    On failure the caller runs its failing-input search and finally reports no-failing-input-found."""
    ctx.translator_errors = build.generate()
    ok, log = leanb.lake_build([prop_mod, "psymodel"] + list(extra_targets))
    ctx.cov["trusted_base"] = list(TRUSTED)
    if not ok:
        leanb.lake_build(["psymodel"] + list(extra_targets))      # the driver must still reflect the current generated data
        ctx.notes["lake_build_log_tail"] = log[-3000:]
        ctx.log("lake build FAILED")
        ctx.lean_failure = "lake build of %s failed: %s" % (prop_mod, _first_error(log))
        # count what exists, nothing discharged
        ctx.cov["obligations"] = max(1, ctx.cov["obligations"])
        return False
    a = leanb.audit(prop_mod)
    ctx.cov["obligations"] = a["obligations"]
    ctx.cov["discharged"] = a["discharged"]
    ctx.cov["checker_cmd"] = a["checker_cmd"]
    ctx.cov["trusted_base"].append("axioms actually used by the theorems of this property: %s" % (a["axioms_used"] or ["none"]))
    ctx.notes["property_theorems"] = a["property_theorems"]
    ctx.notes["lean_modules"] = a["modules"]
    # a translator that could not translate the current source left the committed last-known-good generated file in place: the theorems of a
    # property whose modules import that file are then no longer about the code as it is now.  That is a verdict (no failing input by itself;
    # the property's own oracles still run and may supply one).  C14 (nodeclasses) and C17 (keywords) word their own reports.
    GEN = {"facts": "PsycheModel.Generated.Facts", "recovery": "PsycheModel.Generated.Recovery", "syntaxkind": "PsycheModel.Generated.SyntaxKind"}
    for name, mod in GEN.items():
        err = (ctx.translator_errors or {}).get(name)
        if err and mod in (a["modules"] or []):
            ctx.report("translator:" + name, "translators/%s.py could not translate the current source (%s); the committed last-known-good %s is in use, "
                       "so the theorems and generated obligations of this property are no longer about the code as it is now" % (name, err, mod),
                       {"translator": "translators/%s.py" % name, "error": err, "generated_module": mod}, no_input=True)
    if a["problems"]:
        ctx.lean_failure = "; ".join(a["problems"][:5])
        ctx.log("audit problems:", ctx.lean_failure)
        return False
    if not ctx.quick:
        okc, logc = leanb.leanchecker(prop_mod)
        ctx.notes["leanchecker"] = "ok" if okc else logc
        if not okc:
            ctx.lean_failure = "leanchecker rejected %s: %s" % (prop_mod, logc[-300:])
            return False
    ctx.log("lean: %d obligations, %d discharged, axioms %s" % (a["obligations"], a["discharged"], a["axioms_used"]))
    return True


def _first_error(log):
    for line in log.split("\n"):
        if "error" in line:
            return line.strip()[:300]
    return log[-300:]


def cxx_stage(ctx, flavour="ndebug", targets=("psyh",)):
    t = time.time()
    ok, log, d = build.build(flavour, targets)
    ctx.log("c++ build (%s) %s in %.1fs" % (flavour, "ok" if ok else "FAILED", time.time() - t))
    if not ok:
        ctx.notes["cxx_build_log_tail"] = log[-3000:]
        raise RuntimeError("building /repo + harness (%s) failed: %s" % (flavour, _first_error(log)))
    return d


def run_both(ctx, component, lines, flavour="ndebug", args=(), model_component=None, timeout=3000):
    """Run the same case lines through psyh (real code) and psymodel (Lean model). Returns (impl, model) line lists."""
    from .common import sh
    text = "\n".join(lines) + "\n"
    rc, out, err = sh([build.psyh(flavour), component] + list(args), input=text, timeout=timeout,
                      env={"ASAN_OPTIONS": "detect_leaks=0:new_delete_type_mismatch=0", "UBSAN_OPTIONS": "print_stacktrace=1"})
    impl = out.split("\n")
    if impl and impl[-1] == "":
        impl.pop()
    if rc != 0:
        # a crash / sanitizer report while running a case is a result: identify the case
        k = len(impl)
        culprit = lines[k] if k < len(lines) else (lines[-1] if lines else "")
        raise HarnessCrash(component, flavour, rc, culprit, err[-3000:])
    if model_component == "tree_from_dump":
        model = leanb.model("tree", "\n".join(impl) + "\n", timeout=timeout)
    else:
        model = leanb.model(model_component or component, text, timeout=timeout)
    if len(impl) != len(lines) or len(model) != len(lines):
        raise RuntimeError("%s: line count mismatch impl=%d model=%d cases=%d" % (component, len(impl), len(model), len(lines)))
    return impl, model


class HarnessCrash(Exception):
    def __init__(self, component, flavour, rc, case, stderr):
        super().__init__("psyh %s (%s) died with status %s on case %r: %s" % (component, flavour, rc, case[:200], stderr[-400:]))
        self.component, self.flavour, self.rc, self.case, self.stderr = component, flavour, rc, case, stderr


def lean_unproved(ctx, pid, prop_mod):
    """Called at the end when the Lean stage failed and no failing input was found by the search."""
    if not ctx.violations:
        ctx.report("lean:" + pid, getattr(ctx, "lean_failure", "Lean obligations not discharged"),
                   {"theorem_or_module": prop_mod, "detail": getattr(ctx, "lean_failure", "")}, no_input=True)


def run_harness(ctx, component, lines, flavour="ndebug", args=(), per_case_s=10.0, batch_s=None, max_failures=None):
    """Run case lines through psyh, surviving crashes and hangs: a case on which the process dies or stops answering
    gets the answer 'CRASH rc=<n> <stderr tail>' / 'HANG', and the run resumes with the next case.
    After `max_failures` such cases the remaining ones are answered 'SKIPPED' (a broken tree must not take hours).
    Returns the list of answers (same length as `lines`)."""
    import resource, subprocess, time as _t
    out_all = []
    i = 0
    env = dict(os.environ, ASAN_OPTIONS="detect_leaks=0:new_delete_type_mismatch=0:abort_on_error=0", UBSAN_OPTIONS="print_stacktrace=1")

    def limits():
        if "asan" not in flavour:
            resource.setrlimit(resource.RLIMIT_AS, (4 << 30, 4 << 30))
    nfail = 0
    while i < len(lines):
        if max_failures is not None and nfail >= max_failures:
            out_all += ["SKIPPED"] * (len(lines) - i)
            break
        chunk = lines[i:]
        budget = batch_s or (per_case_s + 0.02 * len(chunk))
        p = subprocess.Popen([build.psyh(flavour), component] + list(args), stdin=subprocess.PIPE, stdout=subprocess.PIPE, stderr=subprocess.PIPE,
                             env=env, preexec_fn=limits)
        try:
            o, e = p.communicate(("\n".join(chunk) + "\n").encode(), timeout=budget)
            rc = p.returncode
            hang = False
        except subprocess.TimeoutExpired:
            p.kill()
            o, e = p.communicate()
            rc, hang = -9, True
        for ln in e.decode("utf-8", "replace").split("\n"):
            if ln.startswith("[ASSERT] at "):
                site = ln[12:].split(" ")[0].replace(str(REPO) + "/", "")
                d = ctx.notes.setdefault("internal_assert_messages", {})
                d[site] = d.get(site, 0) + 1
        got = o.decode("utf-8", "replace").split("\n")
        if got and got[-1] == "":
            got.pop()
        elif got and (rc != 0):
            got.pop()                      # an incomplete last line
        got = got[:len(chunk)]
        out_all += got
        i += len(got)
        if len(got) < len(chunk):
            # the case after the last complete answer is the culprit
            if hang and len(chunk) - len(got) > 1 and budget > per_case_s * 1.5:
                # make sure it is this case that hangs, not the batch budget that ran out
                p2 = subprocess.Popen([build.psyh(flavour), component] + list(args), stdin=subprocess.PIPE, stdout=subprocess.PIPE, stderr=subprocess.PIPE,
                                      env=env, preexec_fn=limits)
                try:
                    o2, e2 = p2.communicate((chunk[len(got)] + "\n").encode(), timeout=per_case_s)
                    if p2.returncode == 0 and o2.strip():
                        out_all.append(o2.decode("utf-8", "replace").split("\n")[0]); i += 1
                        continue
                    e, rc, hang = e2, p2.returncode, False
                except subprocess.TimeoutExpired:
                    p2.kill(); p2.communicate()
            etxt = e.decode("utf-8", "replace")
            key = [ln.strip() for ln in etxt.split("\n") if "runtime error" in ln or "ERROR: AddressSanitizer" in ln or ln.startswith("SUMMARY") or "Assertion" in ln or "terminate called" in ln]
            frames = [ln.strip() for ln in etxt.split("\n") if ln.strip().startswith("#") and "/repo/" in ln][:4]
            tail = " / ".join(key[:3] + frames) if key else etxt[-600:].replace("\n", " / ")
            out_all.append("HANG (no answer within %.0fs)" % per_case_s if hang else "CRASH rc=%s %s" % (rc, tail))
            i += 1
            nfail += 1
    return out_all
