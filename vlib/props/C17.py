"""C17 — Keywords are recognised exactly as the dialect and extensions prescribe.

Proof: lean/PsycheModel/Props/C17.lean — generic trie-interpreter theorem (all words x all option valuations)
+ four `decide` obligations on the trie REGENERATED from C/parser/Keywords.cpp by translators/keywords.py.
Tie: translator (T), validated on every run by lexing ~17k words x ~45 option sets through the real
SyntaxTree/Lexer and through the generated Lean trie.  Oracle for the search: the hand-written Lean spec table
evaluated directly (psymodel keywords, 4th field)."""
import os, re
from .. import stages, build, leanb
from ..common import ROOT, REPO, LEAN

NFLAGS = 31
DEFAULT_BITS = "d" * NFLAGS
ALPHA = "aet_0Z$"


def spec_spellings():
    src = open(os.path.join(LEAN, "PsycheModel", "KeywordSpec.lean")).read()
    return sorted(set(re.findall(r'w!"([A-Za-z_0-9]+)"', src)))


def neighbours(w):
    out = {w}
    for i in range(len(w)):
        out.add(w[:i] + w[i + 1:])                                  # deletion
        c = w[i]
        out.add(w[:i] + (c.lower() if c.isupper() else c.upper()) + w[i + 1:])   # case flip
        for a in ALPHA + (chr(ord(c) + 1) if c not in "z~" else "a"):
            out.add(w[:i] + a + w[i + 1:])                          # substitution
    for i in range(len(w) + 1):
        for a in ALPHA + (w[i - 1] if i else w[0]):
            out.add(w[:i] + a + w[i:])                              # insertion
    for k in range(1, len(w)):
        out.add(w[:k])                                              # every proper prefix
    return {x for x in out if x and re.match(r"^[A-Za-z_$][A-Za-z0-9_$]*$", x)}


def crossovers(words):
    """words mixed from two spellings of the same length that differ in 2..5 places: each differing place taken from either
    ('char16_t' x 'char32_t' -> 'char12_t', 'char36_t'): what a trie node shared by two spellings may accept by mistake"""
    out = set()
    by_len = {}
    for w in words:
        by_len.setdefault(len(w), []).append(w)
    for ws in by_len.values():
        for i, a in enumerate(ws):
            for b in ws[i + 1:]:
                diff = [k for k in range(len(a)) if a[k] != b[k]]
                if 2 <= len(diff) <= 5:
                    for mask in range(1, (1 << len(diff)) - 1):
                        c = list(a)
                        for j, k in enumerate(diff):
                            if mask >> j & 1:
                                c[k] = b[k]
                        out.add("".join(c))
    return {x for x in out if re.match(r"^[A-Za-z_$][A-Za-z0-9_$]*$", x)} - set(words)


def optsets(ctx):
    sets = []
    for std in "0123":
        sets.append("%s,1,0,2,%s" % (std, DEFAULT_BITS))
        sets.append("%s,1,0,2,%s" % (std, "1" * NFLAGS))
        sets.append("%s,1,0,2,%s" % (std, "0" * NFLAGS))
    # the same selections made through the options object's with-ers (default-constructed, or constructed with ANOTHER standard first):
    # what the lexer obeys must be what was selected last (seeded change C17-c cached the standard at construction)
    for std in "0123":
        for route in "wx":
            sets.append("%s%s,1,0,2,%s" % (std, route, DEFAULT_BITS))
            sets.append("%s%s,1,0,2,%s" % (std, route, "1" * NFLAGS))
    off = ["2,0,0,2," + DEFAULT_BITS, "2,0,0,2," + "d" * 24 + "0" + "d" * 6, "0,0,0,2," + "1" * NFLAGS]
    flips = []
    defaults = "0000011111111111111001" + "1" * 9       # LanguageExtensions() / MacroTranslations() defaults
    for i in range(NFLAGS):
        b = list(defaults)
        b[i] = "0" if b[i] == "1" else "1"
        flips.append("2,1,0,2," + "".join(b))
        flips.append("1,1,0,2," + "".join(b))
    rnd = []
    for _ in range(8 if ctx.quick else 400):
        rnd.append("%d,%d,0,2,%s" % (ctx.rng.randrange(4), ctx.rng.random() < 0.85, "".join(ctx.rng.choice("01") for _ in range(NFLAGS))))
    return sets, off, flips, rnd


def run(ctx):
    import sys
    sys.path.insert(0, ROOT)
    from translators import keywords as tk
    gen = os.path.join(LEAN, "PsycheModel", "Generated", "Keywords.lean")
    translator_error = None
    code_spellings = []
    proved = stages.lean_stage(ctx, "PsycheModel.Props.C17")
    stages.cxx_stage(ctx, "ndebug")
    translator_error = ctx.translator_errors.get("keywords")
    if translator_error:
        ctx.log("translator failed:", translator_error)
    else:
        funcs, disp = tk.parse_keywords(os.path.join(REPO, "C/parser/Keywords.cpp"))
        code_spellings = ["".join(chr(c) for p, c in cs) for kind, n, cs, gs, k in tk.paths(funcs, disp) if k != "IdentifierToken"]

    spell = sorted(set(spec_spellings()) | set(code_spellings))
    words = set()
    for w in spell:
        words |= neighbours(w)
    cross = crossovers(spell)
    words |= cross
    words = sorted(words)
    small = sorted(set(spell) | {w[:-1] for w in spell if len(w) > 1} | {w + "_" for w in spell} | {w.swapcase() for w in spell} | cross)
    sets, off, flips, rnd = optsets(ctx)
    if not ctx.quick:
        for _ in range(20000):
            n = ctx.rng.randrange(1, 24)
            words.append("".join(ctx.rng.choice("_abcdefghilmnoprstuvwxyNULABCFGT0123468$") for _ in range(n)))
        words = sorted({w for w in words if re.match(r"^[A-Za-z_$]", w)})
    lines = []
    for o in sets + off:
        lines += ["%s %s" % (o, w.encode().hex()) for w in words]
    for o in flips + rnd:
        lines += ["%s %s" % (o, w.encode().hex()) for w in (small if ctx.quick else words)]
    ctx.log("sweep: %d words, %d option sets, %d cases" % (len(words), len(sets + off + flips + rnd), len(lines)))
    from .. import leanb
    impl = stages.run_harness(ctx, "keywords", lines)
    model = leanb.model("keywords", "\n".join(re.sub(r"^(\d)[wxc],", r"\1,", l) for l in lines) + "\n")      # the model knows no routes
    nviol = ncorr = 0
    nontrivial = set()
    for l, i, m in zip(lines, impl, model):
        iw, mw = i.split(), m.split()
        first, ntok, irec, itr = iw
        mkind, mrec, mtr, skind = mw
        if skind != "IdentifierToken":
            nontrivial.add(l)
        o, hx = l.split()
        word = bytes.fromhex(hx).decode()
        if first != skind or ntok != "3":
            if nviol < 3:
                ctx.report("word:%s|%s" % (word, o),
                           "under options %s the word %r is lexed as %s (%s tokens) but the specification says %s"
                           % (o, word, first, ntok, skind),
                           {"component": "keywords", "case": l, "impl": i, "model": m, "spec_kind": skind})
            nviol += 1
        elif (first, irec, itr) != (mkind, mrec, mtr):
            if ncorr < 3:
                ctx.report("corr:%s|%s" % (word, o), "translation validation: real lexer %s vs generated trie %s on %r under %s"
                           % ((first, irec, itr), (mkind, mrec, mtr), word, o),
                           {"component": "keywords", "case": l, "impl": i, "model": m}, no_input=True)
            ncorr += 1
    ctx.cov.update({
        "evaluations": len(lines), "distinct_nontrivial": len(nontrivial), "traces_validated_against_impl": len(lines),
        "exhaustive": True,
        "rule": "every keyword / operator-name spelling of the specification table and of the current trie (%d) with all single-character deletions, case flips, substitutions and insertions over a 7+1 character alphabet, all proper prefixes and all cross-overs of two spellings of one length that differ in 2..5 places (%d identifier-shaped words) x {C89,C99,C11,C17} x {defaults, all switches on, all off} + recognition-off sets; every switch flipped singly (x C99/C11) and seeded random valuations on the spellings and their closest variants; non-trivial = distinct (options, word) cases the specification classifies as a keyword or operator name"
                % (len(spell), len(words)),
        "samples": [lines[0], lines[len(lines) // 2], lines[-1]],
    })
    ctx.notes.update({"words": len(words), "option_sets": len(sets + off + flips + rnd), "property_violations": nviol,
                      "translation_validation_disagreements": ncorr, "translator_error": translator_error})
    ctx.assumptions += ["the C++ -> Lean translator for Keywords.cpp handles a restricted subset and fails loudly outside it; its output is validated against the real lexer on every case of the sweep",
                        "gates the standards/manuals do not fix (asm, typeof, __func__, __complex__, __PRETTY_FUNCTION__, format-attribute names) are recorded from the pinned implementation",
                        "spellings with a MacroTranslations switch but no trie entry (static_assert, complex) are not 'known to the front end' and are outside the property's quantifier"]
    if translator_error and not ctx.violations:
        ctx.report("translator:keywords", "translators/keywords.py could not translate C/parser/Keywords.cpp (%s); the committed generated trie agrees with the real lexer on the whole sweep, but the theorems are no longer about the current source" % translator_error,
                   {"translator": "translators/keywords.py", "error": translator_error}, no_input=True)
    if not proved:
        stages.lean_unproved(ctx, "C17", "PsycheModel.Props.C17")


def replay(ctx, rec):
    stages.cxx_stage(ctx, "ndebug")
    leanb.lake_build(["psymodel"])
    l = rec["replay"]["case"]
    impl = stages.run_harness(ctx, "keywords", [l])
    model = leanb.model("keywords", re.sub(r"^(\d)[wxc],", r"\1,", l) + "\n")
    print("case :", l, "(word %r)" % bytes.fromhex(l.split()[1]).decode())
    print("impl :", impl[0], "   (first-token-kind token-count recognize translate)")
    print("model:", model[0], "   (model recognize translate SPEC)")
    if impl[0].split()[0] != model[0].split()[3]:
        ctx.report("word:" + l, "lexed as %s, specification says %s" % (impl[0].split()[0], model[0].split()[3]), {"case": l})
    ctx.cov.update({"evaluations": 1, "samples": [l]})
    return ctx.finish()
