"""C03 — The syntax tree is lossless: unparsing reproduces the source tokens.

Proof: lean/PsycheModel/Props/C03.lean over PsycheModel/Unparse.lean + Tree.lean: for every tree, if the walk over the
child lists (tokens, children, list elements with their delimiters) meets the tokens in source order and meets as
many as lie between the first and the last, the unparser writes exactly the source's token sequence (pigeonhole on
strictly increasing index lists); the written sequence does not depend on the tree's shape.
Tie (H): (1) `faithful`: at every node of every real tree the dumper's sequence of terminal()/child visits equals the
node's child list (so the model's walk IS the dumper's); (2) the two hypotheses are evaluated by the Lean driver on the
structural dump of every real tree.  Oracle (the property itself): unparse -> lex -> same (kind, spelling) sequence;
parse again -> no diagnostics, same pre-order kind listing."""
import collections, random, re, sys
from .. import stages, leanb
from ..common import ROOT
sys.path.insert(0, ROOT)
from gen.snippets import corpus
from gen.cgen import mutate_tokens
from gen.cgen import Gen


def opts(mode):
    return mode if isinstance(mode, str) else "2,1,0,%d,%s" % (mode, "d" * 31)


def run(ctx):
    proved = stages.lean_stage(ctx, "PsycheModel.Props.C03")
    stages.cxx_stage(ctx, "ndebug")
    rng = ctx.rng
    cases = []
    # raw string literals are a C++/extension form whose lexeme is stored without its delimiters: outside C11 (see C05)
    for cat, t in corpus():
        if 'R"' in t:
            continue
        for mode in (2, 3):
            cases.append((mode, cat, t))
    from gen.snippets import extension_corpus
    for cat, t in extension_corpus():
        for mode in (2, 3):
            cases.append(("2,1,0,%d,%s" % (mode, "1" * 31), cat, t))
    n = 300 if ctx.quick else 6000
    for i in range(n):
        g = Gen(random.Random(rng.randrange(1 << 30)), typed=(i % 3 != 0), gnu=(i % 2 == 0), kr=(i % 5 == 0), maxdepth=3 + i % 3)
        cases.append((2 if i % 4 else 3, "a", g.program()))
        if i % 5 == 0:
            # under random parse options as well (whatever parses without diagnostics under them must come back token for token)
            cases.append(("%d,1,0,%d,%s" % (rng.randrange(4), rng.choice([2, 3]), "".join(rng.choice("01d") for _ in range(31))), "a", cases[-1][2]))
    # every ambiguity form in every expression / statement slot with every way of declaring the names (C09's generator; valid programs whose
    # default-mode tree must be ambiguity-free): an ambiguity that is "resolved" without its parent being updated is unparsed twice or lost
    from gen.ambiggen import AmbigGen
    amb = AmbigGen(rng).all_cases(every=8)
    rng.shuffle(amb)
    for c in amb[:1500 if ctx.quick else 30000]:
        cases.append((2 if rng.random() < 0.7 else 3, "a", c["text"]))
    # distinct spellings of equal length and equal table hash (TextElementTable's hash, transcribed in C18.py), in every lexeme category:
    # the lexeme a token refers to is found by hash, length AND bytes - a table that answers with the earlier of two colliding spellings
    # makes the tree write back another program (seeded change C03-d)
    from .C18 import pjw
    import itertools as _it
    groups = {}
    for w in ("".join(t) for n_ in (2, 3) for t in _it.product("abcdefghijklmnopqrstuvwxyz_", repeat=n_)):
        groups.setdefault((len(w), pjw(w.encode())), []).append(w)
    idpairs = [g[:2] for g in groups.values() if len(g) > 1 and not any(x in ("do", "if", "for", "int") for x in g[:2])]
    rng.shuffle(idpairs)
    hexg = {}
    for v in range(0x100):
        w = "0x%02X" % v
        hexg.setdefault(pjw(w.encode()), []).append(w)
    hexpairs = [g[:2] for g in hexg.values() if len(g) > 1]
    strg = {}
    for t in _it.product("0123456789AB", repeat=2):
        w = '"%s"' % "".join(t)
        strg.setdefault(pjw(w.encode()), []).append(w)
    strpairs = [g[:2] for g in strg.values() if len(g) > 1]
    for a, b in idpairs[:60 if ctx.quick else 2000]:
        cases.append((2, "a", "int %s , %s ; void f ( int z ) { %s = %s + z ; if ( %s > %s ) %s ++ ; }" % (a, b, b, a, a, b, b)))
        cases.append((2, "e", "%s * 2 + %s" % (a, b)))
    for a, b in hexpairs[:40]:
        cases.append((2, "a", "int v [ ] = { %s , %s , %s , %s } ;" % (a, b, b, a)))
    for a, b in strpairs[:40]:
        cases.append((2, "s", "g ( %s , %s , %s ) ;" % (a, b, a)))
    ctx.notes["colliding_spelling_pairs"] = {"identifiers": len(idpairs), "hex_constants": len(hexpairs), "string_literals": len(strpairs)}
    # MALFORMED inputs: the property speaks of "every input that parses without diagnostics" - a malformed text that parses without
    # diagnostics and comes back with tokens missing was accepted silently (C01: "malformed input is answered with diagnostics")
    base = [(c, t) for c, t in corpus() if 'R"' not in t]
    nmut = 6000 if ctx.quick else 120000
    for i in range(nmut):
        c, t = base[rng.randrange(len(base))]
        cases.append((2, c, mutate_tokens(rng, t, rng.randrange(1, 3))))
    for i in range(40 if ctx.quick else 600):
        prog = Gen(random.Random(rng.randrange(1 << 30)), gnu=i % 2 == 0, kr=i % 5 == 0).program()
        for j in range(10):
            cases.append((2, "a", mutate_tokens(rng, prog, rng.randrange(1, 3))))
    lines = ["%s %s %s" % (opts(m), c, (t.encode() or b" ").hex()) for m, c, t in cases]
    rt = stages.run_harness(ctx, "roundtrip", lines)
    dump = stages.run_harness(ctx, "tree", lines)
    feed = [l if not l.startswith(("CRASH", "HANG")) else "0 ; no-root | foreign=0 | -" for l in dump]
    hyp = leanb.model("unparse", "\n".join(feed) + "\n")
    nviol = nhyp = nclean = nskip = ntok = nknown = 0
    kinds = set()
    skips = collections.Counter()
    for (mode, cat, text), line, r, h in zip(cases, lines, rt, hyp):
        if r.startswith("skip"):
            nskip += 1
            skips[r.split("=")[0][:40]] += 1
            continue
        if r.startswith(("CRASH", "HANG")):
            nviol += 1
            if nviol <= 3:
                ctx.report("crash:" + text[:80], "unparsing / reparsing %r (mode %d, category %s) did not complete: %s" % (text[:300], mode, cat, r[:300]),
                           {"component": "roundtrip", "case": line, "text": text})
            continue
        f = dict(kv.split("=", 1) for kv in r.split()[1:] if "=" in kv)
        nclean += 1
        ntok += int(f.get("ntok", 0))
        kinds |= set(f.get("kinds", "").split(","))
        if not r.startswith("ok") and re.match(r"diff@\d+:29/3d$", f.get("tokens", "")) and re.search(r"\)\s*=[^=]", text):
            # the first token that differs is a `)' of the source where the output has `=': the initializer of a declarator in parentheses
            ctx.report("paren-declarator-initializer", "the initializer of a parenthesised declarator is stored INSIDE the parentheses: 'int (g) = 1;' is written back as 'int ( g = 1 ) ;' (e.g. %r)" % text[:80], {})
            nknown += 1
            continue
        if not r.startswith("ok"):
            nviol += 1
            if nviol <= 3:
                ctx.report("lossy:" + text[:80], "%r (mode %s, category %s) parses without diagnostics but does not survive unparsing: tokens=%s reparse=%s shape=%s"
                           % (text[:400], mode, cat, decode_diff(f.get("tokens", "?")), f.get("reparse"), f.get("shape")),
                           {"component": "roundtrip", "case": line, "text": text, "answer": r[:600]})
            continue
        # the hypotheses of the theorem on this tree
        m = re.match(r"alltok=(\d+) min=(\S+) max=(\S+) ordered=(\d) contiguous=(\d)", h)
        problems = []
        if f.get("faithful") != "1":
            problems.append("the dumper's emission differs from the child list at a node: " + f.get("unfaithful", "?")[:200])
        if not m:
            problems.append("driver: " + h[:100])
        elif m.group(5) != "1" or int(m.group(1)) != int(f.get("ntok", -1)):
            problems.append("the walk over the child lists is not the source's token sequence (%s; source has %s tokens)" % (h, f.get("ntok")))
        if problems:
            nhyp += 1
            if nhyp <= 3:
                ctx.report("hyp:" + text[:80], "%r unparses losslessly, but a hypothesis of the C03 theorem fails on its tree: %s" % (text[:300], "; ".join(problems)),
                           {"component": "roundtrip", "case": line, "text": text, "theorem": "PsycheModel.Tree.unparse_eq_source"}, no_input=True)
    ctx.cov.update({
        "evaluations": len(cases), "traces_validated_against_impl": nclean, "distinct_nontrivial": len(kinds), "exhaustive": False,
        "rule": "corpus gen/snippets.py (every operator/punctuator spelling incl. digraphs, every literal form, every declarator x trailing asm-label/attribute combination, every statement and declaration form; token-adjacency families (all operator pairs that may be neighbours, literal/operator and keyword/operand hazards, __extension__ before every expression kind); stand-alone expressions/statements/declarations and translation units) x modes AlgorithmicAndHeuristic and Heuristic + generated C11/GNU/K&R programs + token-mutated (malformed) corpus entries and programs: whatever parses WITHOUT diagnostics must come back token for token; cases that do not parse cleanly or keep an ambiguity node are skipped and counted; non-trivial = distinct node kinds in cleanly parsed trees",
        "samples": [cases[0][2][:200], cases[len(cases) // 2][2][:200], cases[-1][2][:200]],
    })
    ctx.notes.update({"cleanly_parsed": nclean, "skipped": nskip, "skip_reasons": dict(skips), "source_tokens": ntok, "node_kinds_covered": len(kinds),
                      "lossy": nviol, "hypothesis_failures": nhyp})
    ctx.assumptions += ["tokens are compared by (kind, spelling): a digraph and its primary spelling are the same token (6.4.6p3)",
                        "raw string literals (not C11) are excluded; comments and preprocessing lines are not tokens of the tree",
                        "a stray ';' at file scope is not a C11 external declaration and is not part of the corpus"]
    if not proved:
        stages.lean_unproved(ctx, "C03", "PsycheModel.Props.C03")


def decode_diff(s):
    m = re.match(r"diff@(\d+):([0-9a-f<>end]*)/([0-9a-f<>end]*)$", s)
    if not m:
        return s
    def un(h):
        try:
            return bytes.fromhex(h).decode("latin-1")
        except ValueError:
            return h
    return "token %s is %r in the source and %r in the unparsed text" % (m.group(1), un(m.group(2)), un(m.group(3)))


def replay(ctx, rec):
    stages.cxx_stage(ctx, "ndebug")
    l = rec["replay"]["case"]
    print("text:", bytes.fromhex(l.split()[2]).decode("latin-1"))
    print("roundtrip:", stages.run_harness(ctx, "roundtrip", [l])[0])
    ctx.cov.update({"evaluations": 1, "samples": [l[:200]]})
    return ctx.finish()
