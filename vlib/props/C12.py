"""C12 — Typedef names resolve to their declared synonym and basic types are canonical.

Proof: lean/PsycheModel/Props/C12.lean over PsycheModel/Typedefs.lean: canonicalisation leaves every basic/void leaf
canonical and binds every typedef name to the declaration the scope search finds (error type if none); resolution
returns a typedef-free type for EVERY environment (cyclic ones end in the error type) and, on every acyclic environment
(chains of any length), exactly the type the chain denotes (derivations kept, qualifiers accumulated).
Tie (H): generated programs are run through the whole pipeline; every declaration's type is printed with, at each
typedef-name / tag leaf, the declaration it refers to (by line) and what it resolves to, and with a mark on every
basic/void leaf that is not the compilation's canonical object; the same is computed by the model from the abstract
environment.  Oracle: the generator's own C environment and chain expansion."""
import collections, random, re, sys
from .. import stages, leanb
from ..common import ROOT, sh
sys.path.insert(0, ROOT)
from gen.typedefgen import TypedefGen, BASIC

HAND = [
    ("typedef const int CI;\ntypedef volatile CI VCI;\ntypedef VCI *PV;\nPV x;\nVCI y;\n",
     {("Variable", "x", 4): "(TD_PV@3=>(Ptr_(Qcv_Int_S)))", ("Variable", "y", 5): "(TD_VCI@2=>(Qcv_Int_S))", ("Typedef", "VCI", 2): "(Qcv_Int_S)"}),
    ("typedef int T;\nT a;\nvoid f(void)\n{\n typedef char T;\n T b;\n {\n  T c;\n }\n}\nT d;\n",
     {("Variable", "a", 2): "(TD_T@1=>Int_S)", ("Variable", "b", 6): "(TD_T@5=>Char)", ("Variable", "c", 8): "(TD_T@5=>Char)", ("Variable", "d", 11): "(TD_T@1=>Int_S)"}),
    ("typedef int T;\ntypedef T U;\nU u0;\nvoid f(void)\n{\n typedef char T;\n U u1;\n typedef T V;\n V v1;\n}\n",
     {("Variable", "u0", 3): "(TD_U@2=>Int_S)", ("Variable", "u1", 7): "(TD_U@2=>Int_S)", ("Variable", "v1", 9): "(TD_V@8=>Char)"}),
    ("struct S;\ntypedef struct S TS;\nstruct S { int m; };\nTS *p;\nvoid f(void)\n{\n struct S { char c; };\n struct S q;\n TS *r;\n}\n",
     # the tag of line 1 is completed on line 3 (one entity; the front end names the completing declaration since the repair of forward-declared tags)
     {("Variable", "p", 4): "(Ptr_(TD_TS@2=>(Tag_struct_S@3)))", ("Variable", "q", 8): "(Tag_struct_S@7)", ("Variable", "r", 9): "(Ptr_(TD_TS@2=>(Tag_struct_S@3)))"}),
    ("typedef int A0;\ntypedef A0 A1;\ntypedef A1 A2;\ntypedef A2 A3;\ntypedef A3 A4;\ntypedef A4 A5;\ntypedef A5 A6;\ntypedef A6 A7;\ntypedef A7 A8;\ntypedef A8 A9;\ntypedef A9 A10;\ntypedef A10 A11;\nA11 z;\n",
     {("Variable", "z", 13): "(TD_A11@12=>Int_S)"}),
    ("typedef int *P;\ntypedef P A[2];\ntypedef A *Q;\nQ q;\ntypedef const P CP;\nCP cp;\n",
     {("Variable", "q", 4): "(TD_Q@3=>(Ptr_(Arr_(Ptr_Int_S))))", ("Variable", "cp", 6): "(TD_CP@5=>(Qc_(Ptr_Int_S)))"}),
]


def parse_impl(line):
    body, _, diags = line.partition(" | diags=")
    out = {}
    if body.strip() != "-":
        for e in body.split(" ; "):
            e = e.strip()
            m = re.match(r"(\w+):([^@]+)@([^:]+):(.*)$", e)
            if m:
                out[(m.group(1), m.group(2), int(m.group(3)) if m.group(3).isdigit() else m.group(3))] = m.group(4)
    return out, diags.strip()


def model_to_impl(s, g):
    s = re.sub(r"B(\d+)", lambda m: BASIC[int(m.group(1))][1], s)
    s = re.sub(r"G(\d+)", lambda m: "(Tag_%s_%s@%d)" % (g.tags[int(m.group(1))]["kw"], g.tags[int(m.group(1))]["name"], g.tags[int(m.group(1))]["line"]), s)
    s = re.sub(r"TD#(\d+)", lambda m: "TD_%s@%d" % (g.tdecls[int(m.group(1))]["name"], g.tdecls[int(m.group(1))]["line"]), s)
    return s


def run(ctx):
    proved = stages.lean_stage(ctx, "PsycheModel.Props.C12")
    stages.cxx_stage(ctx, "ndebug")
    rng = ctx.rng
    n = 1000 if ctx.quick else 15000
    gens = []
    for i in range(n):
        g = TypedefGen(random.Random(rng.randrange(1 << 30)), nnames=3 + i % 5, chain=2 + i % 11, size=12 + (i * 5) % 50)
        gens.append((g, g.program()))
    ngcc = nbad = 0
    for g, text in gens[:: max(1, len(gens) // (50 if ctx.quick else 300))]:
        rc, _, err = sh(["gcc", "-std=c11", "-fsyntax-only", "-w", "-x", "c", "-"], input=text)
        ngcc += 1
        nbad += rc != 0
    lines = [t.encode().hex() for t, _ in HAND] + [t.encode().hex() for _, t in gens]
    impl = stages.run_harness(ctx, "typedefs", lines)
    model = leanb.model("typedefs", "\n".join(" ; ".join(g.model) for g, _ in gens) + "\n")
    nviol = ncorr = ndecl = nknown = 0
    stats = collections.Counter()

    def judge(text, line, ans, expect, tag):
        nonlocal nviol, ndecl, nknown
        if ans.startswith(("CRASH", "HANG", "no-unit", "bad")):
            nviol += 1
            if nviol <= 3:
                ctx.report("crash:" + text[-60:], "no answer for a valid program: %s\n%s" % (ans[:300], text), {"component": "typedefs", "case": line, "text": text})
            return None
        got, diags = parse_impl(ans)
        bad = None
        for key, want in expect.items():
            ndecl += 1
            have = got.get(key, "absent")
            if have != want:
                bad = bad or (key, have, want)
        # leaves that are not canonical objects, in any declaration
        noncanon = [(k, v) for k, v in got.items() if "!" in v]
        # (the known finding: only the signature of a function DEFINITION — the generated ones are 'void wrapN(void)', the hand-written 'void f(void)')
        defined = {m.group(1): 1 + text.count("\n", 0, m.start()) for m in re.finditer(r"^void (\w+)\(void\)\n", text, re.M)}
        known_sig = [(k, v) for k, v in noncanon if (k[0] == "Function" and k[1] in defined) or (k[0] == "Parameter" and k[2] in defined.values())]
        if known_sig:
            nknown += 1
            ctx.report("fundef-signature", "the type of a function DEFINITION and of its parameters is never canonicalised (e.g. %s:%s has %s: a basic/void leaf that is not the canonical object)"
                       % (known_sig[0][0][0], known_sig[0][0][1], known_sig[0][1]), {})
        other = [(k, v) for k, v in noncanon if (k, v) not in known_sig]
        if other and not bad:
            bad = (other[0][0], other[0][1], "every basic/void leaf canonical")
        # every program is complete and valid: each typedef name and each tag refers to a declaration and resolves to something
        unbound = [(k, v) for k, v in got.items() if re.search(r"@-|=>null|Error", v)]
        if unbound and not bad:
            bad = (unbound[0][0], unbound[0][1], "every typedef name / tag bound to its declaration and resolved")
        if diags != "-" and not bad:
            bad = (("diagnostics", "", 0), diags, "no diagnostic on a valid program")
        if bad:
            nviol += 1
            if nviol <= 3:
                ctx.report("%s:%s" % (tag, text[-70:]), "declaration %s of\n%s\nhas type %s after computeSemanticModel; by C's scoping and chain expansion it is %s" % (bad[0], text, bad[1], bad[2]),
                           {"component": "typedefs", "case": line, "text": text, "declaration": list(bad[0]), "impl": bad[1], "expected": bad[2]})
            return None
        return got

    for (text, exp), line, ans in zip(HAND, lines, impl):
        judge(text, line, ans, exp, "hand")
    for (g, text), line, ans, mod in zip(gens, lines[len(HAND):], impl[len(HAND):], model):
        stats.update({k: v for k, v in g.stats.items() if k != "maxchain"})
        stats["maxchain"] = max(stats["maxchain"], g.stats["maxchain"])
        if getattr(g, "tag_alias", None):
            # a tag declared without content and completed later in the same scope is one entity: the front end names the completing
            # declaration (since the repair of forward-declared tags), the generator the first one - both are the declaration C selects
            ans = re.sub(r"\(Tag_(\w+?)_(\w+)@(\d+)\)", lambda m: "(Tag_%s_%s@%d)" % (m.group(1), m.group(2), g.tag_alias.get((m.group(1), m.group(2), int(m.group(3))), int(m.group(3)))), ans)
        got = judge(text, line, ans, g.expect, "decl")
        if got is None:
            continue
        # correspondence with the Lean model
        if mod.startswith("bad"):
            raise RuntimeError("model driver: %s for %s" % (mod, " ; ".join(g.model)[:300]))
        dis = None
        for e in mod.split(" ; "):
            label, _, ty = e.partition("=")
            ty = model_to_impl(ty, g)
            if label.startswith("T"):
                rec = g.tdecls[int(label[1:])]
                key = ("Typedef", rec["name"], rec["line"])
            else:
                nm, _, ln = label.partition("@")
                key = ("Field" if nm.startswith("f") else "Variable", nm, int(ln))
            if got.get(key) != ty:
                dis = dis or (key, got.get(key), ty)
        if dis:
            ncorr += 1
            if ncorr <= 3:
                ctx.report("corr:" + text[-70:], "canonicaliser/resolver and the Lean model disagree on %s: impl %s, model %s\n%s" % (dis[0], dis[1], dis[2], text),
                           {"component": "typedefs", "case": line, "text": text}, no_input=True)
    ctx.cov.update({
        "evaluations": len(lines), "traces_validated_against_impl": len(lines), "distinct_nontrivial": ndecl, "exhaustive": False,
        "rule": "generated programs: typedef chains up to length 12 over basic/void/tag/typedef-name bases with pointer (cv-qualified), array, function-pointer derivations and qualified bases, typedefs and tags shadowed in inner blocks (nesting to depth 3), forward-declared and later completed tags, variables of all these types at file and block scope; structures and unions at file and block scope whose members are plain, bit-field and function-pointer members (parameters of basic and typedef-name types), anonymous structures/unions, named members of untagged and of tagged types defined in place, nested to depth 3; + 6 hand-written programs (qualifier accumulation, shadowing after an outer use, chains of 12, tags); per declaration the printed type (which declaration each typedef-name/tag leaf refers to, what it resolves to, canonical-object marks) is compared with the generator's C environment/expansion and with the Lean model",
        "samples": [gens[0][1][:300], gens[-1][1][:300]],
    })
    ctx.notes.update({"declarations_compared": ndecl, "oracle_violations": nviol, "model_disagreements": ncorr, "known_fundef_signature_hits": nknown,
                      "generator_stats": dict(stats), "gcc_sample": {"checked": ngcc, "rejected": nbad}})
    ctx.assumptions += ["names are never declared in a block after they were looked up through it (the order-insensitive scope search is C10's known finding 'late-declaration')",
                        "qualified array/function typedefs are not generated (6.7.3p9: the representation choice is not part of the property)",
                        "resolution rewrites the typedef declarations' synonymized types in place; the model returns the rewritten type"]
    if nbad:
        raise RuntimeError("the typedef generator produced %d/%d programs gcc rejects" % (nbad, ngcc))
    if not proved:
        stages.lean_unproved(ctx, "C12", "PsycheModel.Props.C12")


def replay(ctx, rec):
    stages.cxx_stage(ctx, "ndebug")
    l = rec["replay"]["case"]
    print("text:\n" + bytes.fromhex(l).decode("latin-1"))
    print("impl:", stages.run_harness(ctx, "typedefs", [l])[0].replace(" ; ", "\n      "))
    ctx.cov.update({"evaluations": 1, "samples": [l[:200]]})
    return ctx.finish()
