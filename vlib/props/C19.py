"""C19 — The cnip driver's exit status and options reflect what the front end found.

Proof: lean/PsycheModel/Props/C19.lean (decision model of CommandLineParser::detectCommandOptions + Driver::go).
Tie: hand model <-> the real cnip executable (built from /repo's sources) over the full cross product of documented
option values x {valid, syntactically invalid, semantically invalid} files, + malformed argument vectors.
Front-end verdicts per configuration come from psyh (same library objects), so the oracle
'exit 0 <=> preprocessing ok and no error reported' is evaluated independently of the driver."""
import itertools, os, shutil, subprocess, tempfile
from concurrent.futures import ThreadPoolExecutor
from .. import stages, build, leanb
from ..common import sh, BUILD, NCPU

FILES = {
    "valid.c": "int x;\nint main(void) { return x; }\n",
    "synerr.c": "int x = ;\nint main(void) { return 0; }\n",
    "semerr.c": "int x;\nvoid f(void) { x.y; }\n",
    "amb.c": "void f(void) { T * x; /** doc */ a(b); }\n",
    # valid files on which the disambiguation modes give different verdicts (the guideline alone takes 'a * b;' for a declaration and
    # '(a) - b' for a cast: errors; the algorithm sees the variable): the mode a value selects must be the one it names
    "ambmul.c": "int a, b;\nvoid f(void) { a * b; }\n",
    "ambcast.c": "int a, b, c;\nvoid f(void) { c = (a) - b; }\n",
    "ambtype.c": "typedef int T;\nvoid f(void) { T * x; T (y); x = &y; }\n",
    "pre.i": "typedef int T; T y;\n",
    # mixtures of severities within one phase (the exit status must not depend on their order)
    "synerrwarn.c": "int x = ;\nint a[2] = { [0] 1 };\n",
    "synwarnerr.c": "int a[2] = { [0] 1 };\nint x = ;\n",
    "synwarn.c": "int a[2] = { [0] 1 };\n",
    "semerrwarn.c": "int f(void)(void);\nint;\n",
    "semwarnerr.c": "int;\nint f(void)(void);\n",
    "semwarn.c": "int;\n",
    # nothing to analyse: no bytes at all, blanks only, a comment only — the front end reports no error, so the status is 0
    "empty.c": "",
    "newline.c": "\n",
    "blank.c": " \t\n\n",
    "comment.c": "/* nothing */\n/* here */\n",
}
STD = [None, "c89", "c90", "c99", "c11", "c17", "c18"]
DIS = [None, "a", "h", "ah", "none"]
COM = [None, "d", "ka", "kdo"]
STDN = {"c89": 0, "c90": 0, "c99": 1, "c11": 2, "c17": 3, "c18": 3, None: 3}
DISN = {"none": 0, "a": 1, "ah": 2, "h": 3, None: 2}
COMN = {"d": 0, "ka": 1, "kdo": 2, None: 0}


def hx(s):
    return s.encode().hex() if s else "e"


def run_cnip(cnip, argv, cwd):
    try:
        p = subprocess.run([cnip] + argv, cwd=cwd, stdout=subprocess.PIPE, stderr=subprocess.PIPE, timeout=60)
    except subprocess.TimeoutExpired:
        return -998, "timeout", ""
    err = p.stderr.decode(errors="replace")
    msg = ""
    for line in err.split("\n"):
        if line.startswith("cnip: "):
            msg = line[6:]
            break
    return p.returncode, msg, err


def run(ctx):
    proved = stages.lean_stage(ctx, "PsycheModel.Props.C19")
    stages.cxx_stage(ctx, "ndebug", ("psyh", "cnip"))
    cnip = os.path.join(BUILD, "ndebug", "cnip")
    work = tempfile.mkdtemp(prefix="c19_", dir=BUILD)
    try:
        for n, t in FILES.items():
            open(os.path.join(work, n), "w").write(t)
        # front-end verdict per (file, std, disambiguation, comment)
        vlines, vkeys = [], []
        for f, t in FILES.items():
            for s in set(STDN.values()):
                for d in set(DISN.values()):
                    for c in set(COMN.values()):
                        vlines.append("%d,1,%d,%d,%s %s" % (s, c, d, "d" * 31, t.encode().hex()))
                        vkeys.append((f, s, d, c))
        rc, out, err = sh([build.psyh("ndebug"), "verdict"], input="\n".join(vlines) + "\n", timeout=600)
        if rc != 0:
            raise RuntimeError("psyh verdict failed: " + err[-500:])
        verdict = {k: tuple(int(x) for x in l.split()) for k, l in zip(vkeys, out.split("\n"))}

        cases = []          # (argv, files involved)
        fileset = list(FILES)
        for s, d, c, so, da in itertools.product(STD, DIS, COM, [False, True], [False, True]):
            for f in fileset:
                argv = []
                if s: argv.append("-std=" + s)
                if d: argv += ["-disambiguation", d]
                if c: argv += ["-comment", c]
                if so: argv.append("-fsyntax-only")
                if da: argv.append("-dump-ast")
                cases.append((argv + ["-pp", "none", f], [f], "none"))
        npp_none = len(cases)
        # preprocessing through gcc (strict / relaxed / default): sampled in quick, complete in thorough
        pp_cases = []
        for s, d, c, so in itertools.product(STD, DIS, COM, [False, True]):
            for f in fileset:
                for pp in ("s", "r", None):
                    argv = []
                    if s: argv.append("-std=" + s)
                    if d: argv += ["-disambiguation", d]
                    if c: argv += ["-comment", c]
                    if so: argv.append("-fsyntax-only")
                    pp_cases.append((argv + (["-pp", pp] if pp else []) + [f], [f], pp or "s"))
        if ctx.quick:
            pp_cases = ctx.rng.sample(pp_cases, 160)
        cases += pp_cases
        # several files, option order, later option overrides earlier
        cases.append((["-pp", "none", "valid.c", "semerr.c"], ["valid.c", "semerr.c"], "none"))
        cases.append((["-pp", "none", "valid.c", "pre.i"], ["valid.c", "pre.i"], "none"))
        cases.append((["-pp", "none", "-fsyntax-only", "semerr.c", "valid.c"], ["semerr.c", "valid.c"], "none"))
        cases.append((["-std=c89", "-std=c11", "-comment", "ka", "-comment", "d", "-pp", "none", "valid.c"], ["valid.c"], "none"))
        cases.append((["valid.c", "-pp", "none", "-disambiguation", "none", "-disambiguation", "ah"], ["valid.c"], "none"))
        ndoc = len(cases)
        # malformed / undocumented
        bad = [[], ["-pp", "none"], ["-std"], ["-std="], ["-comment"], ["-disambiguation"], ["-pp"], ["-cc"], ["-analysis"], ["-"], [""],
               ["-foo", "valid.c"], ["--bar"], ["valid.txt"], ["valid"], ["-pp", "none", "missing.c"], ["-pp", "q", "valid.c"],
               ["-std=c23", "-pp", "none", "valid.c"], ["-std=gnu11", "-pp", "none", "valid.c"], ["-comment", "x", "-pp", "none", "valid.c"],
               ["-comment", "", "-pp", "none", "valid.c"], ["-disambiguation", "z", "-pp", "none", "valid.c"], ["-pp", "none", "valid.c", "-comment"],
               ["-x", "c", "valid"], ["-x", "y", "valid"], ["-I"], ["-Ifoo", "-DX", "-UY", "-pp", "none", "valid.c"], ["-help"], ["--help", "-bogus"],
               ["-bogus", "-help"], ["-pp", "none", "valid.c", "-analysis", "/nonexistent.so"], ["-dump-ast"], ["-fsyntax-only"],
               ["-std=c99", "-std", "valid.c"], ["-include", "valid.c"], ["-nostdinc", "-undef", "-C", "-CC", "-ansi", "-pp", "none", "valid.c"]]
        for _ in range(60 if ctx.quick else 600):
            pool = ["-std=c99", "-std=", "-std", "-comment", "ka", "kdo", "d", "-disambiguation", "a", "none", "-pp", "none", "s", "valid.c", "synerr.c",
                    "missing.c", "x.h", "-fsyntax-only", "-dump-ast", "-help", "-q", "", "-", "-x", "c", "-I", "-D", "-cc", "gcc", "--", "-include-stdlib-headers"]
            bad.append([ctx.rng.choice(pool) for _ in range(ctx.rng.randrange(1, 6))])
        for b in bad:
            if "--" in b:
                continue                      # sub-command execution is not modelled
            if "-pp" not in b and any(x.endswith((".c", ".h")) for x in b):
                b = ["-pp", "none"] + b        # keep gcc out of the malformed stream
            cases.append((b, [x for x in b if x in FILES], "none" if "none" in b else "s"))

        def facts_for(argv, pp):
            # configuration in effect = last occurrence of each option (as the decoder does)
            s = d = c = None
            for j, a in enumerate(argv):
                if a.startswith("-std=") and len(a) > 5: s = a[5:]
                if a == "-disambiguation" and j + 1 < len(argv): d = argv[j + 1]
                if a == "-comment" and j + 1 < len(argv): c = argv[j + 1]
            key = (STDN.get(s, 3), DISN.get(d, 2), COMN.get(c, 0))
            out = []
            for f in FILES:
                syn, sem, tu = verdict[(f,) + key]
                out.append("%s:1:1:%d:%d" % (f.encode().hex(), syn, sem))
            return " ".join(out)

        with ThreadPoolExecutor(NCPU) as ex:
            results = list(ex.map(lambda cs: run_cnip(cnip, cs[0], work), cases))
        mlines = ["%s | %s" % (facts_for(argv, pp), " ".join(hx(a) for a in argv)) for argv, fs, pp in cases]
        model = leanb.model("cnip", "\n".join(mlines) + "\n")
        nviol = ncorr = 0
        seen_outcomes = set()
        for idx, ((argv, fs, pp), (code, msg, err), m) in enumerate(zip(cases, results, model)):
            mcode, mmsg = int(m.split(" ", 1)[0]), m.split(" ", 1)[1]
            seen_outcomes.add((mcode, mmsg))
            bad = None
            if code < 0 or code > 1:
                bad = "cnip terminated with status %s (signal or unexpected code); stderr: %s" % (code, err[-200:])
            elif idx < ndoc:
                # documented command line: the exit-status law, stated directly
                ok = True
                for f in fs:
                    key = None
                    # find verdict under the configuration in effect
                    ff = dict(x.split(":")[0:1] + [x] for x in facts_for(argv, pp).split())
                    rec = ff[f.encode().hex()].split(":")
                    syn, sem = rec[3] == "1", rec[4] == "1"
                    so = "-fsyntax-only" in argv
                    if syn or (sem and not so):
                        ok = False
                        break
                if (code == 0) != ok:
                    bad = "exit status %d but the front end %s for %s under this configuration" % (code, "reported no error" if ok else "reported an error", fs)
                elif code != 0 and not err.strip():
                    bad = "non-zero exit without any message"
            else:
                if code != mcode and not (mmsg == "cannot load analysis"):
                    bad = "exit status %d, decision model says %d (%s)" % (code, mcode, mmsg)
                elif code == 1 and not err.strip():
                    bad = "malformed command line answered without a message"
            if bad:
                if nviol < 3:
                    ctx.report("argv:" + " ".join(argv), "cnip %s: %s" % (" ".join(repr(a) for a in argv), bad),
                               {"component": "cnip", "argv": argv, "files": {f: FILES[f] for f in fs}, "exit": code, "stderr": err[-500:], "model": m})
                nviol += 1
            elif code != mcode:
                if ncorr < 3:
                    ctx.report("corr:" + " ".join(argv), "cnip %s exits %d, Lean decision model %d (%s)" % (argv, code, mcode, mmsg),
                               {"component": "cnip", "argv": argv, "exit": code, "model": m}, no_input=True)
                ncorr += 1
        ctx.cov.update({
            "evaluations": len(cases), "distinct_nontrivial": len({tuple(c[0]) for c in cases[:ndoc] if True}),
            "traces_validated_against_impl": len(cases), "exhaustive": True,
            "rule": "real cnip executable on the full cross product {-std: 6 values + default} x {-disambiguation: 4 + default} x {-comment: 3 + default} x {-fsyntax-only} x {-dump-ast} x -pp none x %d files (valid, syntax error, semantic error, ambiguity+doc comment, three valid files on which the disambiguation modes differ, preprocessed .i, error/warning mixtures in both orders per phase) = %d runs (exhaustive); -pp s / r / default through gcc: %s; multi-file and option-override cases; %d malformed or undocumented argument vectors (fixed list + seeded random); non-trivial = distinct documented command lines"
                    % (len(FILES), npp_none, "160 sampled" if ctx.quick else "complete (%d)" % len(pp_cases), len(cases) - ndoc),
            "samples": [" ".join(cases[k][0]) for k in (3, npp_none // 2, npp_none + 1, ndoc + 3, len(cases) - 1)],
        })
        ctx.notes.update({"property_violations": nviol, "correspondence_disagreements": ncorr, "model_outcomes_seen": sorted(map(str, seen_outcomes))})
        ctx.assumptions += ["'--' sub-command execution and -analysis plugins are not modelled", "gcc on PATH performs the preprocessing for -pp s/r",
                            "'printed each reported error' is checked only as 'stderr is not empty when the status is non-zero'"]
    finally:
        shutil.rmtree(work, ignore_errors=True)
    if not proved:
        stages.lean_unproved(ctx, "C19", "PsycheModel.Props.C19")


def replay(ctx, rec):
    stages.cxx_stage(ctx, "ndebug", ("psyh", "cnip"))
    work = tempfile.mkdtemp(prefix="c19_", dir=BUILD)
    try:
        for n, t in FILES.items():
            open(os.path.join(work, n), "w").write(t)
        code, msg, err = run_cnip(os.path.join(BUILD, "ndebug", "cnip"), rec["replay"]["argv"], work)
        print("argv:", rec["replay"]["argv"]); print("exit:", code); print("stderr:", err[-800:]); print("model:", rec["replay"]["model"])
        if code != int(rec["replay"]["model"].split()[0]):
            ctx.report("argv:" + " ".join(rec["replay"]["argv"]), "exit %d vs model %s" % (code, rec["replay"]["model"]), {"argv": rec["replay"]["argv"]})
    finally:
        shutil.rmtree(work, ignore_errors=True)
    ctx.cov.update({"evaluations": 1, "samples": [" ".join(rec["replay"]["argv"])]})
    return ctx.finish()
