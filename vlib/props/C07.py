"""C07 — A declarator yields exactly the C type it spells.

Proof: lean/PsycheModel/Props/C07.lean over PsycheModel/Declarators.lean (model of the binder's type stack): for every
declarator shape/depth, parameter lists (recursively) and any number of declarators per declaration the binder binds
kind, name and the inside-out type, adjusts parameters, restores the base type between declarators; redundant
parentheses are irrelevant; every derivation sequence has a declarator the binder maps back to it.
Tie (H): the declarator trees built by the real parser are dumped (psyh declarators) and fed to the model; the symbols
the model binds are compared with the symbols the real binder bound (kind, name, type S-expression, decay flags).
Oracle: gen/declgen.py draws types, prints them with an independent type-to-declarator printer and knows per name the
expected kind/type and the expected declarator tree."""
import collections, random, re, sys
from .. import stages, leanb
from ..common import ROOT, sh
sys.path.insert(0, ROOT)
from gen.declgen import DeclGen, base_sexpr, PRELUDE, PRELUDE_SYMS, PRELUDE_AST

KINDS = ("Variable", "Function", "Parameter", "Field", "Typedef")


def parse_syms(field):
    out = []
    if field.strip() in ("-", ""):
        return out
    for s in field.strip().split(";"):
        k, n, t = s.split(":", 2)
        if k in KINDS:
            out.append((k, n, t))
    return out


def fields(line):
    d = {}
    for part in line.split(" | "):
        part = part.strip()
        for key in ("ast=", "syms=", "diags="):
            if part.startswith(key):
                d[key[:-1]] = part[len(key):].strip()
    return d


def subst_bases(t):
    def rep(m):
        return base_sexpr(m.group(1).replace("+", " ")) or m.group(0)
    return re.sub(r"\{([^{}]*)\}", rep, t)


def ms(xs):
    return collections.Counter(xs)


def diff(a, b):
    a, b = ms(a), ms(b)
    return sorted((a - b).elements()), sorted((b - a).elements())


def hand_cases():
    """fixed declarations (run first): the classic shapes and the sharing of the base type between declarators"""
    H = [
        ("int *p, q[3], (*fp)(int a, char), f(void), g(), h(int, ...);",
         [("Variable", "p", "(Ptr_Int_S)"), ("Variable", "q", "(Arr_Int_S)"), ("Variable", "fp", "(Ptr_(Fn_Int_S_[Int_S_Char]))"),
          ("Parameter", "a", "Int_S"), ("Parameter", "<anon>", "Char"), ("Function", "f", "(Fn_Int_S_[Void])"), ("Parameter", "<anon>", "Void"),
          ("Function", "g", "(Fn_Int_S_[])"), ("Function", "h", "(Fn_Int_S_[Int_S]_...)"), ("Parameter", "<anon>", "Int_S")]),
        ("int (*pa)[3], *ap[3], (*(*ppf)(void))[2], *(*fpp[2])(int);",
         [("Variable", "pa", "(Ptr_(Arr_Int_S))"), ("Variable", "ap", "(Arr_(Ptr_Int_S))"),
          ("Variable", "ppf", "(Ptr_(Fn_(Ptr_(Arr_Int_S))_[Void]))"), ("Parameter", "<anon>", "Void"),
          ("Variable", "fpp", "(Arr_(Ptr_(Fn_(Ptr_Int_S)_[Int_S])))"), ("Parameter", "<anon>", "Int_S")]),
        ("const char * const * volatile x, * restrict y, z;",
         [("Variable", "x", "(Qv_(Ptr_(Qc_(Ptr_(Qc_Char)))))"), ("Variable", "y", "(Qr_(Ptr_(Qc_Char)))"), ("Variable", "z", "(Qc_Char)")]),
        ("int * const a[2], (* const b)[2], * const * c;",
         [("Variable", "a", "(Arr_(Qc_(Ptr_Int_S)))"), ("Variable", "b", "(Qc_(Ptr_(Arr_Int_S)))"), ("Variable", "c", "(Ptr_(Qc_(Ptr_Int_S)))")]),
        ("void k(int a[3], int f(int), const char *restrict s, int (*)(void), int m[2][3], int * const v[3]);",
         [("Function", "k", "(Fn_Void_[(Ptr/arr_Int_S)_(Ptr/fn_(Fn_Int_S_[Int_S]))_(Qr_(Ptr_(Qc_Char)))_(Ptr_(Fn_Int_S_[Void]))_(Ptr/arr_(Arr_Int_S))_(Ptr/arr_(Qc_(Ptr_Int_S)))])"),
          ("Parameter", "a", "(Ptr/arr_Int_S)"), ("Parameter", "f", "(Ptr/fn_(Fn_Int_S_[Int_S]))"), ("Parameter", "<anon>", "Int_S"),
          ("Parameter", "s", "(Qr_(Ptr_(Qc_Char)))"), ("Parameter", "<anon>", "(Ptr_(Fn_Int_S_[Void]))"), ("Parameter", "<anon>", "Void"),
          ("Parameter", "m", "(Ptr/arr_(Arr_Int_S))"), ("Parameter", "v", "(Ptr/arr_(Qc_(Ptr_Int_S)))")]),
        ("int (*f(int a))(double b);",
         [("Function", "f", "(Fn_(Ptr_(Fn_Int_S_[Double]))_[Int_S])"), ("Parameter", "a", "Int_S"), ("Parameter", "b", "Double")]),
        ("typedef int (*(FT))(char), AT[2][3], *PT2;",
         [("Typedef", "FT", "(Ptr_(Fn_Int_S_[Char]))"), ("Parameter", "<anon>", "Char"), ("Typedef", "AT", "(Arr_(Arr_Int_S))"), ("Typedef", "PT2", "(Ptr_Int_S)")]),
        ("struct W { int (*cb)(int), arr[4], * const cp, bf : 3; };",
         [("Field", "cb", "(Ptr_(Fn_Int_S_[Int_S]))"), ("Parameter", "<anon>", "Int_S"), ("Field", "arr", "(Arr_Int_S)"), ("Field", "cp", "(Qc_(Ptr_Int_S))"), ("Field", "bf", "Int_S")]),
        ("int ((((w)))), (*((pw))), ((aw)[2]), ((fw))(void);",
         [("Variable", "w", "Int_S"), ("Variable", "pw", "(Ptr_Int_S)"), ("Variable", "aw", "(Arr_Int_S)"), ("Function", "fw", "(Fn_Int_S_[Void])"), ("Parameter", "<anon>", "Void")]),
    ]
    return [(t + "\n", s, None) for t, s in H]


# valid C11 that a parser without symbol table reads differently from C (no parser error): recorded findings, keyed by shape
BLIND = [
    ("typedef-base-paren-suffix", "typedef int T;\nT (x[3]);\n", ("Variable", "x", "(Arr_(TD_T))")),
    ("typedef-base-paren-suffix", "typedef int T;\nT (f(int a));\n", ("Function", "f", "(Fn_(TD_T)_[Int_S])")),
    ("lone-typedef-param-before-brace", "typedef char *PT;\nlong (*(f8)(float p7))(PT) { return 0; }\n", ("Function", "f8", "(Fn_(Ptr_(Fn_Long_S_[(TD_PT)]))_[Float])")),
    ("abstract-fn-declarator-typedef-param", "typedef char *PT;\nvoid f(int (PT [2]));\n", ("Function", "f", "(Fn_Void_[(Ptr/fn_(Fn_Int_S_[(Ptr/arr_(TD_PT))]))])")),
    ("abstract-fn-declarator-typedef-param", "typedef int T;\nvoid f(int (T));\n", ("Function", "f", "(Fn_Void_[(Ptr/fn_(Fn_Int_S_[(TD_T)]))])")),
]


def run(ctx):
    proved = stages.lean_stage(ctx, "PsycheModel.Props.C07")
    stages.cxx_stage(ctx, "ndebug")
    rng = ctx.rng
    n = 1500 if ctx.quick else 25000
    cases = hand_cases()
    stats = collections.Counter()
    for i in range(n):
        g = DeclGen(random.Random(rng.randrange(1 << 30)), maxdepth=3 + i % 5, parens=[0.0, 0.15, 0.3, 0.5][i % 4])
        text, syms, ast = g.program(nunits=2 + i % 7)
        cases.append((text, PRELUDE_SYMS + syms, PRELUDE_AST + " ; " + ast))
        stats.update(g.stats)
    # supporting check of the generator itself: gcc must accept a sample of the generated programs
    ngcc = nbad = 0
    for text, _, _ in cases[:: max(1, len(cases) // (60 if ctx.quick else 400))]:
        rc, _, err = sh(["gcc", "-std=c11", "-fsyntax-only", "-w", "-x", "c", "-"], input=text)
        ngcc += 1
        nbad += rc != 0
    lines = ["1 " + t.encode().hex() for t, _, _ in cases]
    impl = stages.run_harness(ctx, "declarators", lines)
    feed = [l if l.startswith("ast=") else "ast= -" for l in impl]
    model = leanb.model("declarators", "\n".join(feed) + "\n")
    nviol = ncorr = nast = ncrash = nsyms = 0
    for (text, exp, east), line, i, m in zip(cases, lines, impl, model):
        if not i.startswith("ast="):
            ncrash += 1
            if ncrash <= 2:
                ctx.report("crash:" + text[-80:], "the front end did not answer for a valid generated declaration set: %s" % i[:300],
                           {"component": "declarators", "case": line, "text": text})
            continue
        f = fields(i)
        got = parse_syms(f.get("syms", "-"))
        nsyms += len(got)
        miss, extra = diff(exp, got)
        if miss or extra or f.get("diags", "-") != "-":
            unit, ul = minimal_unit(ctx, text, exp)
            nviol += 1
            if nviol <= 3:
                ctx.report("decl:" + unit[:100],
                           "declaration %r: bound symbols differ from the types the declarators spell: expected-but-absent %s, bound-but-unexpected %s, diagnostics %s"
                           % (unit[:300], miss[:4], extra[:4], f.get("diags")),
                           {"component": "declarators", "case": ul, "text": unit, "expected": exp if unit == text else None})
            continue
        if not m.startswith("syms="):
            raise RuntimeError("model driver answer not understood: %r for %r" % (m[:200], i[:200]))
        msyms = [(k, n_, subst_bases(t)) for k, n_, t in parse_syms(m[5:])]
        mm, me = diff(msyms, got)
        if mm or me:
            ncorr += 1
            if ncorr <= 3:
                ctx.report("corr:" + text[-80:], "the binder and the Lean model disagree (while the oracle is satisfied) on %r: model-only %s impl-only %s" % (text[-300:], mm[:3], me[:3]),
                           {"component": "declarators", "case": line, "text": text}, no_input=True)
        if east is not None and " ".join(f.get("ast", "").split()) != " ".join(east.split()):
            nast += 1
            ctx.notes.setdefault("declarator_tree_differs_from_printer_examples", [])
            if nast <= 3:
                ctx.notes["declarator_tree_differs_from_printer_examples"].append({"text": text[-200:], "parser": f.get("ast", "")[-300:], "printer": east[-300:]})
    # --- the declarator PARSER: the Lean model (DeclParser.lean) vs the real parser, on token strings
    import itertools
    REND = {"*": "*", "(": "(", ")": ")", "[": "[", "]": "]", ",": ",", ".": "...", "3": "3", "c": "const", "v": "volatile", "r": "restrict", "a": "_Atomic", "i": "int", "h": "char"}
    strings = []
    PALPHA = "*()[],.3xci"
    for n in range(1, (4 if ctx.quick else 5) + 1):
        strings += ["".join(t) for t in itertools.product(PALPHA, repeat=n)]
    def rand_decl(depth, abstract):
        r = rng.random()
        if depth <= 0 or r < 0.2:
            return "" if abstract else "x"
        if r < 0.45:
            return "*" + "".join(rng.sample("cvra", rng.choice([0, 0, 1, 2]))) + rand_decl(depth - 1, abstract)
        inner = rand_decl(depth - 1, abstract)
        if inner.startswith("*") or (rng.random() < 0.2 and inner):
            inner = "(" + inner + ")"
        if r < 0.7:
            return inner + rng.choice(["[3]", "[]"])
        k = rng.choice([0, 1, 1, 2, 3])
        ps = ",".join(rng.choice("ih") + rand_decl(depth - 2, rng.random() < 0.5) for _ in range(k))
        if k and rng.random() < 0.25:
            ps += ",."
        return inner + "(" + ps + ")"
    # a leading qualifier or specifier belongs to the declaration's specifier list, not to the declarator
    strings = [st for st in strings if st[0] not in "ci"]
    for _ in range(4000 if ctx.quick else 60000):
        d = rand_decl(rng.randrange(1, 7), False)
        strings.append(d)
        if rng.random() < 0.3 and d:                      # a mutation: one token dropped or doubled
            k = rng.randrange(len(d))
            m_ = d[:k] + d[k + 1:] if rng.random() < 0.5 else d[:k] + d[k] + d[k:]
            if m_ and m_[0] not in "cvraih":
                strings.append(m_)
    plines, mlines2 = [], []
    for st in strings:
        n_id = 0
        parts = []
        for ch in st:
            if ch == "x":
                n_id += 1
                parts.append("x%d" % n_id)
            else:
                parts.append(REND[ch])
        plines.append("1 " + ("int " + " ".join(parts) + " ;").encode().hex())
        mlines2.append(st + ";")
    pimpl = stages.run_harness(ctx, "declarators", plines)
    pmodel = leanb.model("declparser", "\n".join(mlines2) + "\n")
    npd = nacc = nprw = 0
    for st, pl, a, m in zip(strings, plines, pimpl, pmodel):
        f = fields(a) if a.startswith("ast=") else {}
        # rejected = a parser diagnostic, or the declaration silently missing from the tree (a failure inside a speculative parse whose
        # delayed diagnostics are dropped)
        perr = any(d.startswith("Parser-") for d in f.get("diags", "-").split(",")) or f.get("ast", "-").strip() == "-"
        macc = m != "none" and not m.startswith("bad")
        mtree = m.split(" | ")[0] if macc else None
        if macc:
            # the printer `pr` and the predicate `wf` of the theorems parse_print / text_to_type describe what the parser builds:
            # printing the parsed list gives back the tokens (array sizes apart), and every parsed declarator is well-formed
            mf = dict(kv.split("=", 1) for kv in m.split(" | ")[1].split())
            if mf.get("wf") != "1" or mf.get("pr", "").replace(",.", ".") != (st + ";").replace("3", "").replace(",.", "."):    # the comma before `...` is not insisted on
                nprw += 1
                if nprw <= 3:
                    ctx.report("printer:" + st, "declarator tokens %r: the Lean parser model builds %s, which is %swell-formed (wf) and prints (pr) as %r"
                               % (st, mtree, "" if mf.get("wf") == "1" else "NOT ", mf.get("pr")), {"theorem": "PsycheModel.DeclParser.parse_print (printer / wf vs parser)"}, no_input=True)
        itree = None
        mm = re.match(r"Dv int (\d+ .*)$", f.get("ast", "").strip())
        if mm and " ; " not in mm.group(1):
            itree = mm.group(1).strip()
        nacc += macc
        # the model's alphabet has no typedef-name specifiers, qualifier-only specifiers or identifier array sizes: where the
        # real parser may read such a thing, only the direction "the model accepts => the parser accepts with the same tree" is held
        ambiguous = re.search(r"[(,\[][xcvra]|[ih][cvraih]", st) is not None
        if (macc and (perr or itree != mtree)) or (not macc and not perr and a.startswith("ast=") and not ambiguous):
            npd += 1
            if npd <= 3:
                ctx.report("parser:" + st, "declarator tokens %r: the real parser %s%s; the Lean model of parseDeclarator %s"
                           % (bytes.fromhex(pl.split()[1]).decode(), "rejects them (" + f.get("diags", "?") + ")" if perr else "accepts", "" if perr else " and builds " + str(itree),
                              "builds " + mtree if macc else "rejects them"),
                           {"component": "declarators", "case": pl, "theorem": "PsycheModel.DeclParser (correspondence)"}, no_input=True)
    ctx.notes["parser_model_cases"] = len(strings)
    ctx.notes["parser_model_accepted"] = nacc
    ctx.notes["parser_model_disagreements"] = npd
    ctx.notes["printer_or_wf_mismatches_on_parsed_strings"] = nprw
    # the recorded blind spots of symbol-table-free parsing, printed as known findings while they reproduce
    blines = ["1 " + t.encode().hex() for _, t, _ in BLIND]
    for (key, text, want), o in zip(BLIND, stages.run_harness(ctx, "declarators", blines)):
        got = parse_syms(fields(o).get("syms", "-")) if o.startswith("ast=") else []
        if want not in got:
            ctx.report("blind:" + key, "without a symbol table %r is read differently from C: expected %s among the bound symbols, got %s" % (text, want, [g for g in got if g[0] != "Typedef"][:3]), {})
    ctx.cov.update({
        "evaluations": len(cases), "traces_validated_against_impl": len(cases) - ncrash, "distinct_nontrivial": len(cases) - ncrash, "exhaustive": False,
        "rule": "types drawn over {basic, void, tags, typedef names, qualified bases} x pointer (cv/restrict/_Atomic) x array x function (named/unnamed/variadic/(void)/() parameter lists, nested) to depth 3..7, printed by an independent type-to-declarator printer with 0-50% redundant parentheses, in file/block/member/typedef/prototype/function-definition contexts, 1-3 declarators per declaration; per program: the parser's declarator trees -> Lean model of the binder -> symbols, compared with the real binder's symbols and with the generator's expected (kind, name, type)",
        "samples": [cases[len(hand_cases())][0][len(PRELUDE):][:300], cases[-1][0][len(PRELUDE):][:300]],
    })
    ctx.notes.update({"symbols_compared": nsyms, "oracle_violations": nviol, "model_disagreements": ncorr, "parser_tree_vs_printer_tree_differences": nast,
                      "no_answer": ncrash, "generator_stats": dict(stats), "gcc_sample": {"checked": ngcc, "rejected": nbad}})
    ctx.assumptions += ["'(void)' is represented by the front end as one parameter of type void (FunctionType::parameterListForm); the oracle follows that representation",
                        "array sizes, initialisers, bit-field widths and attributes are not part of the compared type",
                        "the symbols are read after bindDeclarations (before canonicalisation frees and replaces types: that is C02/C12's subject)",
                        "the parser's side (text -> declarator tree) is checked against the printer's tree on every case but is not part of the Lean model"]
    if nbad:
        raise RuntimeError("the declaration generator produced %d/%d programs gcc rejects" % (nbad, ngcc))
    if not proved:
        stages.lean_unproved(ctx, "C07", "PsycheModel.Props.C07")


def minimal_unit(ctx, text, exp):
    """the first single declaration of the program (with the prelude) on which the symbols are already wrong"""
    body = text[len(PRELUDE):] if text.startswith(PRELUDE) else None
    if body is None:
        return text, "1 " + text.encode().hex()
    units = [u for u in body.split("\n") if u.strip()]
    names_exp = collections.defaultdict(list)
    for k, n_, t in exp:
        names_exp[n_].append((k, n_, t))
    for u in units:
        t = PRELUDE + u + "\n"
        l = "1 " + t.encode().hex()
        out = stages.run_harness(ctx, "declarators", [l])[0]
        if not out.startswith("ast="):
            return t, l
        got = [s for s in parse_syms(fields(out).get("syms", "-"))]
        gotn = [s for s in got if s[1] != "<anon>" and s not in PRELUDE_SYMS]
        want = [s for s in exp if s[1] != "<anon>" and any(s[1] == g[1] for g in gotn) and s not in PRELUDE_SYMS]
        # names are unique per program: every named symbol bound for this unit must be among the expected ones
        if ms(gotn) != ms(want) or fields(out).get("diags", "-") != "-":
            return t, l
        names_in_unit = set(re.findall(r"\b[vfpmt]\d+\b", u))
        if not names_in_unit <= {g[1] for g in gotn} | {"m"}:
            return t, l
    return text, "1 " + text.encode().hex()


def replay(ctx, rec):
    stages.cxx_stage(ctx, "ndebug")
    l = rec["replay"]["case"]
    out = stages.run_harness(ctx, "declarators", [l])[0]
    print("text:", bytes.fromhex(l.split()[1]).decode("latin-1"))
    print("impl:", out)
    print("model:", leanb.model("declarators", (out if out.startswith("ast=") else "ast= -") + "\n")[0])
    ctx.cov.update({"evaluations": 1, "samples": [l]})
    return ctx.finish()
