"""C13 — Expression types follow C11 promotions, conversions and constant typing.

Proof: lean/PsycheModel/Props/C13.lean.  Tie: hand model (PsycheModel/Arith.lean) <-> real TypeChecker:
the static conversion functions on all pairs, and end to end typeInfoOf(expression) for every ordered pair x
operator (binary and compound assignment) and for constants at every representability boundary.
Oracle: the C11 spec functions (ArithSpec.lean) printed by psymodel next to the model's answer."""
from .. import stages, build, leanb
from ..common import sh

KINDS = ["Char", "Char_S", "Char_U", "Short_S", "Short_U", "Int_S", "Int_U", "Long_S", "Long_U", "LongLong_S", "LongLong_U",
         "Bool", "Float", "Double", "LongDouble", "FloatComplex", "DoubleComplex", "LongDoubleComplex"]
SPELL = {"Char": "char", "Char_S": "signed char", "Char_U": "unsigned char", "Short_S": "short", "Short_U": "unsigned short",
         "Int_S": "int", "Int_U": "unsigned", "Long_S": "long", "Long_U": "unsigned long", "LongLong_S": "long long",
         "LongLong_U": "unsigned long long", "Bool": "_Bool", "Float": "float", "Double": "double", "LongDouble": "long double",
         "FloatComplex": "float _Complex", "DoubleComplex": "double _Complex", "LongDoubleComplex": "long double _Complex"}
OPS = {"mul": "*", "div": "/", "rem": "%", "add": "+", "sub": "-", "shl": "<<", "shr": ">>", "lt": "<", "gt": ">", "le": "<=",
       "ge": ">=", "eq": "==", "ne": "!="}
ASG = ["mul", "div", "rem", "add", "sub", "shl", "shr"]
SUFFIXES = ["", "u", "U", "l", "L", "ul", "uL", "Ul", "UL", "lu", "lU", "Lu", "LU", "ll", "LL", "ull", "uLL", "Ull", "ULL", "llu", "llU", "LLu", "LLU"]


def hexs(s):
    return s.encode().hex()


def run(ctx):
    proved = stages.lean_stage(ctx, "PsycheModel.Props.C13")
    stages.cxx_stage(ctx, "ndebug")
    impl_lines, model_lines, desc = [], [], []

    def add(il, ml, d):
        impl_lines.append(il); model_lines.append(ml); desc.append(d)

    for l in KINDS:
        add("promo " + l, "promo " + l, ("promo", l))
        for r in KINDS:
            add("conv %s %s" % (l, r), "conv %s %s" % (l, r), ("conv", l, r))
    for op, tok in OPS.items():
        for l in KINDS:
            for r in KINDS:
                prog = "%s a; %s b; void f(){ a %s b; }" % (SPELL[l], SPELL[r], tok)
                add("type " + hexs(prog), "bin %s %s %s" % (op, l, r), ("bin", op, l, r, prog))
    for op in ASG:
        for l in KINDS:
            for r in KINDS:
                prog = "%s a; %s b; void f(){ a %s= b; }" % (SPELL[l], SPELL[r], OPS[op])
                add("type " + hexs(prog), "asg %s %s %s" % (op, l, r), ("asg", op, l, r, prog))
    # integer constants at every representability boundary
    vals = set()
    for k in range(7, 65):
        for d in (-1, 0, 1):
            v = 2 ** k + d
            if 0 <= v <= 2 ** 64 - 1:
                vals.add(v)
    vals |= {0, 1, 7, 8, 63, 64}
    consts = []
    for v in sorted(vals):
        for fmt in ("%d", "0%o", "0x%x", "0X%X"):
            for s in SUFFIXES:
                consts.append((fmt % v) + s)
    if ctx.quick:
        consts = [c for j, c in enumerate(consts) if j % 3 == ctx.seed % 3 or c.rstrip("uUlL") in ("2147483648", "0x80000000", "4294967296", "9223372036854775808", "0xffffffffffffffff")]
    floats = []
    for body in ["1.0", "1.", ".5", "1e5", "1.5e-3", "1E+2", "0.0", "3.14159", "12e0",
                 # hexadecimal floating constants: f / F / l-like letters among the DIGITS are not suffixes ('0x1.fp3' was typed float: repaired)
                 "0x1p3", "0x1.fp3", "0xfp1", "0x.fp0", "0x1.8p-2", "0XAP+1", "0x1.Fp3", "0xf.fp-1", "0xFFp0", "0x1.0p10"]:
        for s in ["", "f", "F", "l", "L"]:
            floats.append(body + s)
    chars = ["'a'", "'u'", "'L'", "'U'", "'f'", "'8'", "'l'", "L'a'", "u'a'", "U'a'", "L'L'", "u'u'", "U'U'", "u'8'", "'\\n'", "'\\''", "L'\\\\'", "'ab'"]
    for c in consts + floats + chars:
        add("type " + hexs("void f(){ %s; }" % c), "const " + hexs(c), ("const", c))
    # the same integer constants on CONFIGURED platforms (Compilation::create with PlatformOptions whose maxima are set): a 32-bit long
    # (ILP32 / LLP64) and a 16-bit int - "the first type of the list that can represent its value on the configured platform"
    for plat in ("ilp32", "ip16", "lp64"):
        for c in consts if not ctx.quick else consts[::2]:
            add("ptype %s %s" % (plat, hexs("void f(){ %s; }" % c)), "pconst %s %s" % (plat, hexs(c)), ("const", c + " on " + plat))

    text = "\n".join(impl_lines) + "\n"
    rc, out, err = sh([build.psyh("ndebug"), "arith"], input=text, timeout=3000)
    if rc != 0:
        raise stages.HarnessCrash("arith", "ndebug", rc, impl_lines[len(out.split("\n")) - 1], err[-2000:])
    impl = out.split("\n")[:-1]
    model = leanb.model("arith", "\n".join(model_lines) + "\n")
    assert len(impl) == len(model) == len(desc), (len(impl), len(model), len(desc))
    nviol = ncorr = 0
    nontrivial = set()
    for d, i, m in zip(desc, impl, model):
        mv, sv = m.split()
        if d[0] in ("bin", "asg", "const"):
            got = i.split(" | ")[0].split()[-1]        # type of the (last) expression statement
            diags = i.split(" | ")[1] if " | " in i else ""
        else:
            got = i.strip()
        if sv not in ("-", "ERR") and (d[0] != "const" or True):
            nontrivial.add(d[:4] if d[0] != "const" else d)
        bad = None
        if sv == "-":
            pass                                         # no type in the 6.4.4.1 list represents the value / prefix-typed constant
        elif got != sv:
            bad = "C11 gives %s, the front end recorded %s" % (sv, got)
        if bad:
            if nviol < 3:
                what = {"promo": "integer promotion of %s", "conv": "usual arithmetic conversions %s x %s", "bin": "operator %s on %s x %s",
                        "asg": "compound assignment %s= on %s x %s", "const": "constant %s"}[d[0]] % tuple(d[1:{"promo": 2, "conv": 3, "bin": 4, "asg": 4, "const": 2}[d[0]]])
                ctx.report("arith:" + " ".join(d[:4] if d[0] != "const" else d), "%s: %s" % (what, bad),
                           {"component": "arith", "case": list(d), "impl_line": impl_lines[desc.index(d)], "impl": i, "model_and_spec": m})
            nviol += 1
        elif got != mv:
            if ncorr < 3:
                ctx.report("corr:" + " ".join(map(str, d[:4])), "front end %s vs Lean model %s on %s (no clause of the property decides this case)" % (got, mv, d[:4]),
                           {"component": "arith", "case": list(d), "impl": i, "model_and_spec": m}, no_input=True)
            ncorr += 1
    ctx.cov.update({
        "evaluations": len(desc), "distinct_nontrivial": len(nontrivial), "traces_validated_against_impl": len(desc), "exhaustive": True,
        "rule": "all 18 promotions and 324 ordered pairs through the static functions; all 324 pairs x 13 binary operators and x 7 compound assignments end to end (typeInfoOf of the expression in 'T1 a; T2 b; void f(){ a op b; }'); integer constants 2^k-1, 2^k, 2^k+1 (k=7..64) x {decimal, octal, hex lower/upper} x all 23 suffix spellings (%s), floating constants x 5 suffixes, character constants with every prefix and with prefix letters as content; non-trivial = distinct cases to which C11 assigns a type"
                % ("one third per run, rotating with the seed, boundary cases always" if ctx.quick else "all"),
        "samples": [impl_lines[400][:80], model_lines[2000], model_lines[-30], desc[-1][1]],
    })
    ctx.notes.update({"property_violations": nviol, "correspondence_disagreements": ncorr, "constants": len(consts)})
    ctx.assumptions += ["promotions and conversions: platform = LP64 (the host's PlatformOptions()), performArithmeticConversions has no platform parameter in the code; integer constants: also on configured platforms (32-bit long, 16-bit int)",
                        "wchar_t/char16_t/char32_t typedefs are absent, so L/u/U constants get the built-in fallbacks int/unsigned short/unsigned int",
                        "bitwise &,^,| and logical &&,|| record no type in the front end and are not in the property's operator list",
                        "hexadecimal floating constants: ten bodies x five suffixes"]
    if not proved:
        stages.lean_unproved(ctx, "C13", "PsycheModel.Props.C13")


def replay(ctx, rec):
    stages.cxx_stage(ctx, "ndebug")
    l = rec["replay"]["impl_line"]
    rc, out, err = sh([build.psyh("ndebug"), "arith"], input=l + "\n", timeout=60)
    print("case:", rec["replay"]["case"])
    print("impl:", out.strip(), "   expected (model spec):", rec["replay"]["model_and_spec"])
    got = out.strip().split(" | ")[0].split()[-1]
    if got != rec["replay"]["model_and_spec"].split()[1]:
        ctx.report("arith:" + " ".join(map(str, rec["replay"]["case"][:4])), "still differs", {"case": rec["replay"]["case"]})
    ctx.cov.update({"evaluations": 1, "samples": [l]})
    return ctx.finish()
