"""C05 — Tokenisation follows the C11 lexical grammar.

Proof: lean/PsycheModel/Props/C05.lean over lean/PsycheModel/Lex.lean (hand model of Lexer.cpp: yyinput's code-point
jumps, the whole switch of yylex_CORE, every numeric / quoted / raw / comment sub-lexer, Lexer::lex's directive lines).
Tie (H): the model <-> the real lexer, every field of every token (kind, byte and UTF-16 extents, flags, lexeme text,
kept comments) on exhaustive short strings over the lexer's alphabet, generated token sequences, C programs and their
mutations, byte soup.  Oracle for the search: an independent tokenizer written here from C11 6.4 (regular expressions
+ longest match) and token sequences whose expected tokens are known by construction."""
import itertools, re
from .. import stages, leanb
from ..common import ROOT
from .C01 import rand_opts
import sys, os
sys.path.insert(0, os.path.join(ROOT, "gen"))
from cgen import Gen, mutate_tokens, mutate_bytes  # noqa: E402

DEF = "2,1,0,2," + "d" * 31

PUNCT = {  # C11 6.4.6 (+ digraphs, + the bracket/brace trigraphs the lexer knows)
    "[": "OpenBracketToken", "]": "CloseBracketToken", "(": "OpenParenToken", ")": "CloseParenToken", "{": "OpenBraceToken", "}": "CloseBraceToken",
    ".": "DotToken", "->": "ArrowToken", "++": "PlusPlusToken", "--": "MinusMinusToken", "&": "AmpersandToken", "*": "AsteriskToken",
    "+": "PlusToken", "-": "MinusToken", "~": "TildeToken", "!": "ExclamationToken", "/": "SlashToken", "%": "PercentToken",
    "<<": "LessThanLessThanToken", ">>": "GreaterThanGreaterThanToken", "<": "LessThanToken", ">": "GreaterThanToken",
    "<=": "LessThanEqualsToken", ">=": "GreaterThanEqualsToken", "==": "EqualsEqualsToken", "!=": "ExclamationEqualsToken",
    "^": "CaretToken", "|": "BarToken", "&&": "AmpersandAmpersandToken", "||": "BarBarToken", "?": "QuestionToken", ":": "ColonToken",
    ";": "SemicolonToken", "...": "EllipsisToken", "=": "EqualsToken", "*=": "AsteriskEqualsToken", "/=": "SlashEqualsToken",
    "%=": "PercentEqualsToken", "+=": "PlusEqualsToken", "-=": "MinusEqualsToken", "<<=": "LessThanLessThanEqualsToken",
    ">>=": "GreaterThanGreaterThanEqualsToken", "&=": "AmpersandEqualsToken", "^=": "CaretEqualsToken", "|=": "BarEqualsToken",
    ",": "CommaToken", "#": "HashToken", "##": "HashHashToken",
    "<:": "OpenBracketToken", ":>": "CloseBracketToken", "<%": "OpenBraceToken", "%>": "CloseBraceToken", "%:": "HashToken", "%:%:": "HashHashToken",
}
TRIGRAPHS = {"??(": "OpenBracketToken", "??)": "CloseBracketToken", "??<": "OpenBraceToken", "??>": "CloseBraceToken"}

# ---- the independent tokenizer (C11 6.4; used to decide which adjacencies the grammar allows and as the oracle on punctuator strings)
D, H, O = "[0-9]", "[0-9a-fA-F]", "[0-7]"
ISUF = r"(?:[uU](?:ll|LL|l|L)?|(?:ll|LL|l|L)[uU]?)?"
FSUF = r"[flFL]?"
RE_FLOAT = re.compile(r"(?:(?:%s*\.%s+|%s+\.)(?:[eE][+-]?%s+)?|%s+[eE][+-]?%s+)%s|0[xX](?:%s*\.%s+|%s+\.?)[pP][+-]?%s+%s" % (D, D, D, D, D, D, FSUF, H, H, H, D, FSUF))
RE_INT = re.compile(r"(?:0[xX]%s+|0%s*|[1-9]%s*)%s" % (H, O, D, ISUF))
RE_IDENT = re.compile(rb"[A-Za-z_$\x80-\xff][A-Za-z0-9_$\x80-\xff]*")
RE_CHAR = re.compile(r"(?:L|u|U)?'(?:[^'\\\n]|\\.)+'", re.S)
RE_STR = re.compile(r"(?:u8|L|u|U)?\"(?:[^\"\\\n]|\\.)*\"", re.S)
RE_PPNUM = re.compile(r"\.?[0-9](?:[eEpP][+-]|[0-9A-Za-z_.])*")
PUNCT_SORTED = sorted(PUNCT, key=len, reverse=True)


def spec_tokens(text):
    """[(spelling, class)] by longest match, class in punct/ident/int/float/char/str/bad; None if the text is not made of C11 tokens."""
    out, i = [], 0
    b = text
    while i < len(b):
        c = b[i]
        if c in " \t\n\v\f\r":
            i += 1; continue
        rest = b[i:]
        m = RE_PPNUM.match(rest)
        if m:
            s = m.group(0)
            if RE_FLOAT.fullmatch(s): out.append((s, "float"))
            elif RE_INT.fullmatch(s): out.append((s, "int"))
            else: return None
            i += len(s); continue
        m = RE_CHAR.match(rest) or RE_STR.match(rest)
        if m:
            out.append((m.group(0), "char" if "'" in m.group(0)[:2] or m.group(0)[0] == "'" else "str")); i += len(m.group(0)); continue
        m = RE_IDENT.match(rest.encode("latin-1", "replace"))
        if m:
            out.append((rest[:len(m.group(0))], "ident")); i += len(m.group(0)); continue
        for p in PUNCT_SORTED:
            if rest.startswith(p):
                out.append((p, "punct")); i += len(p); break
        else:
            return None
    return out


def strip_comments(text):
    """translation phase 3 on an ASCII text without splices: each comment becomes one blank; None for an unterminated comment or literal"""
    out, i, n = [], 0, len(text)
    while i < n:
        c = text[i]
        if text.startswith("/*", i):
            j = text.find("*/", i + 2)
            if j < 0:
                return None
            out.append(" "); i = j + 2; continue
        if text.startswith("//", i):
            j = text.find("\n", i)
            if j < 0:
                j = n
            out.append(" "); i = j; continue
        if c in "\"'":
            j = i + 1
            while j < n and text[j] != c and text[j] != "\n":
                j += 1
            if j >= n or text[j] != c:
                return None
            out.append(text[i:j + 1]); i = j + 1; continue
        out.append(c); i += 1
    return "".join(out)


def kind_of_constant(sp, cls):
    if cls == "int": return "IntegerConstantToken"
    if cls == "float": return "FloatingConstantToken"
    if cls == "char":
        return {"L": "CharacterConstant_L_Token", "u": "CharacterConstant_u_Token", "U": "CharacterConstant_U_Token"}.get(sp[0], "CharacterConstantToken")
    if sp.startswith("u8"): return "StringLiteral_u8_Token"
    return {"L": "StringLiteral_L_Token", "u": "StringLiteral_u_Token", "U": "StringLiteral_U_Token"}.get(sp[0], "StringLiteralToken")


# ---- generators of single tokens (spelling, class)
KEYWORDS = "auto break case char const continue default do double else enum extern float for goto if inline int long register restrict return short signed sizeof static struct switch typedef union unsigned void volatile while _Alignas _Alignof _Atomic _Bool _Complex _Generic _Imaginary _Noreturn _Static_assert _Thread_local".split()


# identifiers that begin like an encoding prefix / a raw-string prefix: the lexer looks ahead for a quote and must come back to an identifier
PREFIX_HEADS = ["L", "u", "U", "R", "u8", "LR", "uR", "UR", "u8R", "U8", "u8L", "uU", "LL", "RR", "u88", "u8u8", "u8RR", "LRR", "uR8"]
PREFIX_TAILS = ["", "x", "8", "R", "_", "ate", "8R", "R8", "0", "$", "é", "u8R", "L"]


def gen_ident(rng):
    k = rng.randrange(10)
    if k == 0:
        return rng.choice(KEYWORDS)
    if k == 1:
        return rng.choice(PREFIX_HEADS) + rng.choice(PREFIX_TAILS)
    first = rng.choice("abcxyzLuUR_$TEpPeEfli" + "é中")
    body = "".join(rng.choice("abcxyz019_$RLuU8eEpP" + "é中\U0001F600") for _ in range(rng.choice([0, 0, 1, 1, 2, 3, 5, 9])))
    return first + body


def gen_int(rng):
    base = rng.randrange(3)
    if base == 0: s = rng.choice("123456789") + "".join(rng.choice("0123456789") for _ in range(rng.randrange(0, 6)))
    elif base == 1: s = "0" + "".join(rng.choice("01234567") for _ in range(rng.randrange(0, 6)))
    else: s = rng.choice(["0x", "0X"]) + "".join(rng.choice("0123456789abcdefABCDEF") for _ in range(rng.randrange(1, 7)))
    return s + rng.choice(["", "", "u", "U", "l", "L", "ll", "LL", "ul", "uL", "Ul", "UL", "ull", "uLL", "Ull", "ULL", "lu", "lU", "Lu", "LU", "llu", "llU", "LLu", "LLU"])


def gen_float(rng):
    ds = lambda a, b: "".join(rng.choice("0123456789") for _ in range(rng.randrange(a, b)))
    hs = lambda a, b: "".join(rng.choice("0123456789abcdefABCDEF") for _ in range(rng.randrange(a, b)))
    exp = lambda ch: rng.choice(ch) + rng.choice(["", "+", "-"]) + ds(1, 4)
    k = rng.randrange(6)
    if k == 0: s = ds(0, 4) + "." + ds(1, 4) + (exp("eE") if rng.random() < 0.5 else "")
    elif k == 1: s = ds(1, 4) + "." + (exp("eE") if rng.random() < 0.5 else "")
    elif k == 2: s = ds(1, 5) + exp("eE")
    elif k == 3: s = rng.choice(["0x", "0X"]) + hs(0, 4) + "." + hs(1, 4) + exp("pP")
    elif k == 4: s = rng.choice(["0x", "0X"]) + hs(1, 4) + rng.choice(["", "."]) + exp("pP")
    else: s = "0" + ds(0, 3) + rng.choice([".", "." + ds(1, 3), exp("eE")])
    return s + rng.choice(["", "", "f", "F", "l", "L"])


ESCAPES = ["\\n", "\\t", "\\\\", "\\'", "\\\"", "\\?", "\\a", "\\0", "\\12", "\\377", "\\x41", "\\xfF0", "\\u00e9", "\\U0001F600"]


def gen_char(rng):
    body = "".join(rng.choice(["a", "Z", "0", " ", "\"", "?", "/", "*", "é"] + ESCAPES) for _ in range(rng.choice([1, 1, 1, 2, 4])))
    return rng.choice(["", "", "L", "u", "U"]) + "'" + body + "'"


def gen_string(rng):
    body = "".join(rng.choice(["a", "Z", "0", " ", "'", "?", "/", "*", "//", "/*", "é", "中"] + ESCAPES) for _ in range(rng.choice([0, 1, 2, 3, 6, 12])))
    return rng.choice(["", "", "L", "u", "U", "u8"]) + "\"" + body + "\""


SEPS = [" ", " ", "\n", "\t", "  ", " \n ", "/**/", "/* c */", "/* * / */", "// x\n", "\\\n", " \\\n ", "\r\n", "\f", "\v"]


def gen_sequence(rng, n):
    """(text, [(spelling, class, byte offset)])"""
    toks = []
    for _ in range(n):
        k = rng.randrange(12)
        if k <= 3: toks.append((rng.choice(list(PUNCT)), "punct"))
        elif k <= 5: toks.append((gen_ident(rng), "ident"))
        elif k <= 7: toks.append((gen_int(rng), "int"))
        elif k <= 9: toks.append((gen_float(rng), "float"))
        elif k == 10: toks.append((gen_char(rng), "char"))
        else: toks.append((gen_string(rng), "str"))
    if toks[0][0] in ("#", "%:", "##", "%:%:"):
        toks.insert(0, ("y", "ident"))
    text, placed = "", []
    for j, (sp, cls) in enumerate(toks):
        if j:
            prev = toks[j - 1][0]
            sep = rng.choice(SEPS) if rng.random() < 0.6 else ""
            if sep == "":
                # none only where the grammar allows: the concatenation must re-tokenize into the same two tokens,
                # and must not start a comment
                st = spec_tokens(prev + sp)
                if st is None or [x[0] for x in st] != [prev, sp] or (prev + sp).find("//") in range(len(prev) - 1, len(prev) + 1) \
                        or (prev + sp).find("/*") in range(len(prev) - 1, len(prev) + 1):
                    sep = " "
            if (sep == "" or sep.startswith(("/", "\\"))) and sep != "":
                # a comment or splice glued to the neighbours must not form another lexical element with them
                st = spec_tokens(prev + sp)
                if st is None or [x[0] for x in st] != [prev, sp] or prev.endswith("/") or sp.startswith(("/", "*")) and prev.endswith("/"):
                    sep = " " + sep + " "
            if sp in ("#", "%:", "##", "%:%:") and "\n" in sep and text.rstrip(" \t\f\v").endswith(("\n", "")):
                sep = " "
            # extensions beyond C11 the lexer has (see the assumptions): R"…" / LR"…" / uR"…" / UR"…" / u8R"…" raw strings and u8'c' -
            # an identifier that IS such a prefix is kept apart from a following literal (a comment or splice between them does not
            # separate them for the lexer's purposes either way: use a blank)
            if (cls == "str" and toks[j - 1][1] == "ident" and prev in ("R", "LR", "uR", "UR", "u8R")) or (cls == "char" and toks[j - 1][1] == "ident" and prev == "u8"):
                if not sep or not sep.strip(" \t\n") == "":
                    sep = " "
            text += sep
        placed.append((sp, cls, len(text.encode())))
        text += sp
    return text, placed


def directive_free(text):
    """a '#' that is first on its line starts a directive line: not a token sequence"""
    for ln in re.split(r"\n", re.sub(r"/\*.*?\*/", " ", text, flags=re.S)):
        if re.match(r"^[ \t\f\v\r]*(#|%:|\?\?=)", ln):
            return False
    return True


def parse_tokens(ans):
    toks = []
    for w in ans.split(" | ")[0].split(" "):
        f = w.split(":")
        if len(f) != 7:
            return None
        toks.append((f[0], int(f[1]), int(f[2]), int(f[3]), int(f[4]), f[5], f[6]))
    return toks


def check_expected(ctx, text, placed, ans, keyword_kind, opts):
    """compare the real token stream with the tokens the sequence was built from; returns a description or None"""
    toks = parse_tokens(ans)
    if toks is None:
        return "unreadable answer " + ans[:100]
    tb = text.encode()
    if len(toks) != len(placed) + 1:
        return "%d tokens instead of %d: %s" % (len(toks) - 1, len(placed), " ".join(t[0] for t in toks)[:300])
    end = 0
    for (sp, cls, off), t in zip(placed, toks):
        spb = sp.encode()
        want = PUNCT[sp] if cls == "punct" else keyword_kind(sp) if cls == "ident" else kind_of_constant(sp, cls)
        if t[0] != want:
            return "token %r has kind %s, C11 says %s" % (sp, t[0], want)
        if (t[1], t[2]) != (off, len(spb)):
            return "token %r has extent [%d,+%d), its characters are at [%d,+%d)" % (sp, t[1], t[2], off, len(spb))
        if t[1] < end:
            return "token %r overlaps its predecessor" % sp
        end = t[1] + t[2]
        if cls != "punct" and want in ("IdentifierToken",) or cls in ("int", "float", "char", "str"):
            if t[6] != (spb.hex() or "."):
                return "token %r has lexeme text %r" % (sp, bytes.fromhex(t[6]) if t[6] not in "-." else t[6])
        u16 = len(sp.encode("utf-16-le")) // 2
        if t[4] != u16:
            return "token %r has %d UTF-16 units, counted %d" % (sp, u16, t[4])
        if t[3] != len(tb[:off].decode().encode("utf-16-le")) // 2:
            return "token %r has UTF-16 offset %d" % (sp, t[3])
    e = toks[-1]
    if e[0] != "EndOfFile" or e[1] != len(tb) or e[2] != 0:
        return "the stream does not end with an end-of-file token at offset %d: %s" % (len(tb), e[:3])
    if any(t[0] == "EndOfFile" for t in toks[:-1]):
        return "more than one end-of-file token"
    return None


def run(ctx):
    proved = stages.lean_stage(ctx, "PsycheModel.Props.C05")
    stages.cxx_stage(ctx, "ndebug")
    rng = ctx.rng
    nviol = ncorr = 0
    # ---------------------------------------------------------------- 1. oracle: sequences of C11 tokens
    kwcache = {}

    def keyword_kinds(words, opts):
        need = [w for w in words if (w, opts) not in kwcache]
        if need:
            out = leanb.model("keywords", "\n".join("%s %s" % (opts, w.encode().hex()) for w in need) + "\n")
            for w, o in zip(need, out):
                kwcache[(w, opts)] = o.split()[3]            # 4th field: the specification table evaluated directly

    seqs = []
    # every punctuator alone, every ordered pair of punctuators with each separator class and with none
    puncts = list(PUNCT)
    # (an identifier in front keeps '#', '%:' from starting a directive line)
    for p in puncts:
        seqs.append(("x " + p, [("x", "ident", 0), (p, "punct", 2)]))
    for a, b in itertools.product(puncts, repeat=2):
        for sep in ("", " ", "\n", "/**/", "\\\n"):
            if sep in ("", "\\\n") or (sep == "/**/" and a.endswith("/")):
                st = spec_tokens(a + b)
                if st is None or [x[0] for x in st] != [a, b] or "//" in a + b or "/*" in a + b or (sep == "/**/" and a.endswith("/")):
                    continue
            text = "x " + a + sep + b
            if "\n" in sep and b in ("#", "%:", "##", "%:%:"):
                continue
            seqs.append((text, [("x", "ident", 0), (a, "punct", 2), (b, "punct", 2 + len(a + sep))]))
    # identifiers that look like encoding / raw-string prefixes: alone, and in front of every token class but the literal they would prefix
    for h in PREFIX_HEADS:
        for t in PREFIX_TAILS:
            w = h + t
            seqs.append((w, [(w, "ident", 0)]))
            for after, cls in ((";", "punct"), ("+", "punct"), ("(", "punct"), ("1", "int"), ("y", "ident")):
                for sep in (" ", "\n", "/**/") + (("",) if cls == "punct" else ()):
                    seqs.append((w + sep + after, [(w, "ident", 0), (after, cls, len((w + sep).encode()))]))
            seqs.append(("a " + w + " b", [("a", "ident", 0), (w, "ident", 2), ("b", "ident", 2 + len(w.encode()) + 1)]))
    npairs = len(seqs)
    nseq = 4000 if ctx.quick else 80000
    for _ in range(nseq):
        seqs.append(gen_sequence(rng, rng.choice([1, 1, 2, 2, 3, 5, 8])))
    seqs = [s for s in seqs if directive_free(s[0])]
    optsets = [DEF] + [rand_opts(rng) for _ in range(5)]
    cases = []
    for j, (text, placed) in enumerate(seqs):
        opts = DEF if j < npairs else optsets[j % len(optsets)]
        cases.append((text, placed, opts))
    for opts in optsets:
        keyword_kinds(sorted({sp for t, pl, o in cases if o == opts for sp, cls, _ in pl if cls == "ident"}), opts)
    lines = ["%s %s" % (o, t.encode().hex() or "20") for t, pl, o in cases]
    impl = stages.run_harness(ctx, "lex", lines)
    classes = {}
    for (text, placed, opts), a, l in zip(cases, impl, lines):
        if a.startswith(("CRASH", "HANG", "exception")):
            ctx.report("crash:" + text[:60], "lexing %r: %s" % (text, a[:200]), {"component": "lex", "case": l}); nviol += 1; continue
        why = check_expected(ctx, text, placed, a, lambda w: kwcache[(w, opts)], opts)
        for sp, cls, _ in placed:
            classes[cls] = classes.get(cls, 0) + 1
        if why:
            if nviol < 5:
                ctx.report("tokens:" + text[:80], "text %r (options %s): %s" % (text, opts, why), {"component": "lex", "case": l, "expected": [(s, c) for s, c, _ in placed]})
            nviol += 1
    # ---------------------------------------------------------------- 2. correspondence: the Lean model <-> the real lexer, every field
    texts = [t.encode() for t, _, _ in cases[npairs:npairs + (1500 if ctx.quick else 20000)]]
    # exhaustive short strings over the lexer's alphabet
    alpha = [b"+", b"-", b"<", b">", b"=", b".", b"%", b":", b"/", b"*", b"?", b"(", b"#", b"&", b"|", b"!", b"^", b"0", b"1", b"9", b"x", b"e", b"p", b"u", b"L", b"R", b"8", b"l",
             b"'", b"\"", b"\\", b"\n", b" ", b"a", b"_", b"\xc3", b"\xa9", b"\xf0", b";", b"~"]
    for n in (1, 2):
        texts += [b"".join(p) for p in itertools.product(alpha, repeat=n)]
        texts += [b"a " + b"".join(p) for p in itertools.product(alpha, repeat=n)]      # not at the start of a line: '#' is a token, not a directive
    tri = list(itertools.product(alpha, repeat=3))
    texts += [(b"a " if j % 2 else b"") + b"".join(p) for j, p in enumerate(tri if not ctx.quick else rng.sample(tri, 8000))]
    # every punctuator followed by every 1- and 2-symbol continuation
    texts += [b"a " + p.encode() + b"".join(q) for p in list(PUNCT) + list(TRIGRAPHS) for n in (1, 2) for q in itertools.product(alpha, repeat=n)]
    # comment shapes: every string over the characters that matter inside and around comments, alone and followed by a closer
    calpha = [b"/", b"*", b"!", b"x", b" ", b"\n"]
    for n in range(1, (5 if ctx.quick else 7) + 1):
        for p_ in itertools.product(calpha, repeat=n):
            c = b"".join(p_)
            if b"/" not in c:
                continue
            texts.append(b"a" + c + b"b")
            texts.append(b"a " + c + b" y */ b")
    # literal shapes: quotes, backslashes, line ends, prefixes
    lalpha = [b"\"", b"'", b"\\", b"\n", b"a", b"x", b"0", b"u", b"8", b"L"]
    for n in range(1, (4 if ctx.quick else 5) + 1):
        for p_ in itertools.product(lalpha, repeat=n):
            c = b"".join(p_)
            if b"\"" in c or b"'" in c or b"\\" in c:
                texts.append(b"a " + c + b" b")
    for _ in range(3000 if ctx.quick else 60000):
        texts.append(b"".join(rng.choice(alpha + [b"0x", b"1.", b"e+", b"//", b"/*", b"*/", b"u8", b"LR\"", b"R\"x(", b")x\"", b"# ", b"\n#", b"line", b"\x00", b"\xff", b"\xe4\xb8\xad", b"\xf0\x9f\x98\x80"])
                              for _ in range(rng.randrange(1, 14))))
    progs = [Gen(__import__("random").Random(rng.randrange(1 << 30)), gnu=i % 2 == 0).program() for i in range(30 if ctx.quick else 300)]
    for p in progs:
        texts.append(p.encode())
        texts.append(mutate_bytes(rng, p, rng.randrange(1, 6)))
        texts.append(mutate_tokens(rng, p, rng.randrange(1, 6)).encode())
    lines2 = ["%s %s" % (optsets[j % len(optsets)] if j % 3 else DEF, (t or b" ").hex()) for j, t in enumerate(texts)]
    impl2 = stages.run_harness(ctx, "lex", lines2)
    model2 = leanb.model("lex", "\n".join(lines2) + "\n", timeout=3000)
    nun = 0
    for t, l, a, m in zip(texts, lines2, impl2, model2):
        if a.startswith(("CRASH", "HANG", "exception")):
            ctx.report("crash:" + t[:40].hex(), "lexing %r: %s" % (t[:200], a[:200]), {"component": "lex", "case": l}); nviol += 1; continue
        if m == "unsupported":
            nun += 1; continue
        a2 = " | ".join(a.split(" | ")[:2])
        if a2.rstrip() != m.rstrip():
            # is it a property violation?  extents must tile the text in order and end with one EndOfFile at the end
            toks = parse_tokens(a)
            why = None
            if toks:
                end = 0
                for k in toks:
                    if k[1] < end: why = "token %s at %d overlaps its predecessor" % (k[0], k[1]); break
                    end = k[1] + k[2]
                nul = t.find(b"\x00")
                size = len(t) if nul < 0 else nul
                if not why and (toks[-1][0] != "EndOfFile" or toks[-1][1] != size): why = "the stream does not end with EndOfFile at %d" % size
                if not why and end > size: why = "a token extends beyond the text"
            if not why and toks:
                # second oracle: comments replaced per translation phase 3, then the independent tokenizer
                try:
                    tx = t.decode("ascii")
                except UnicodeDecodeError:
                    tx = None
                exp = spec_tokens(strip_comments(tx)) if tx is not None and "\\" not in tx and "#" not in tx and "\x00" not in tx and "??" not in tx and strip_comments(tx) is not None else None
                if exp is not None and "R\"" not in tx:
                    got = [t[k[1]:k[1] + k[2]].decode("ascii", "replace") for k in toks if k[0] != "EndOfFile"]
                    if got != [sp for sp, _ in exp]:
                        why = "the token spellings are %s; the C11 grammar (comments being separators) prescribes %s" % (got[:8], [sp for sp, _ in exp][:8])
            if why:
                if nviol < 5:
                    ctx.report("extent:" + t[:40].hex(), "text %r: %s" % (t[:200], why), {"component": "lex", "case": l})
                nviol += 1
            else:
                if ncorr < 4:
                    da, dm = a2.split(" "), m.split(" ")
                    k = next((i for i in range(min(len(da), len(dm))) if da[i] != dm[i]), min(len(da), len(dm)))
                    ctx.report("corr:" + t[:40].hex(), "text %r (options %s): the real lexer and the Lean model differ at token %d: %s vs %s" % (t[:200], l.split()[0], k, da[k:k + 2], dm[k:k + 2]),
                               {"component": "lex", "case": l, "impl": a2[:2000], "model": m[:2000], "correspondence": "PsycheModel.Lex <-> C/parser/Lexer.cpp"}, no_input=True)
                ncorr += 1
    ctx.cov.update({
        "evaluations": len(cases) + len(texts), "distinct_nontrivial": len({c[0] for c in cases}) + len(set(texts)), "traces_validated_against_impl": len(texts) - nun,
        "exhaustive": False,
        "rule": "oracle: every punctuator alone and all %d ordered punctuator pairs joined by {nothing where 6.4 allows it, blank, newline, comment, splice}; %d generated token sequences (punctuators incl. digraphs, keywords, identifiers incl. UTF-8 and '$', decimal/octal/hex integers x all 23 suffixes, decimal and hexadecimal floats with/without fraction/exponent/suffix, character constants and string literals x all prefixes x simple/octal/hex/universal escapes) joined by 15 separator forms or none where an independent C11 tokenizer says the grammar allows it; expected kind, byte extent, UTF-16 extent, lexeme text, one EndOfFile at the end. correspondence: Lean model vs real lexer on %d texts: all strings of length 1-2 and %s of length 3 over a 40-symbol lexer alphabet, random concatenations of lexer-relevant fragments (incl. NUL, invalid UTF-8, raw strings, directive lines), generated C programs and their byte/token mutations, under 6 option sets (3 comment modes, keyword recognition on/off, extensions)"
                % (len(puncts) ** 2, nseq, len(texts), "all 64,000" if not ctx.quick else "8,000 sampled"),
        "samples": [cases[npairs + 1][0][:120], cases[npairs + 2][0][:120], str(texts[-1][:100])],
    })
    ctx.notes.update({"property_violations": nviol, "correspondence_disagreements": ncorr, "token_classes_generated": classes, "texts_with_expansion_markers_skipped": nun,
                      "sequences": len(cases), "correspondence_texts": len(texts)})
    ctx.assumptions += ["line splices are separators only (the quantifier's reading): a backslash-newline inside an identifier, number or punctuator is not generated",
                        "extensions the lexer accepts beyond C11 are not counted against it: C++ raw strings R\"d(...)d\" (so an identifier ending in R directly followed by a string literal is not generated), u8 character constants, 0b binary constants, i/j imaginary suffixes, '$' in identifiers, //! and /** documentation comments, /*...*/ omission markers",
                        "universal-character-names in identifiers (\\u00e9) are not recognised by the lexer and not generated; only the four bracket/brace trigraphs are known to it",
                        "'# expansion' marker lines (Qt Creator) are outside the Lean model; texts that have one are skipped by the correspondence (counted in notes)"]
    if not proved:
        stages.lean_unproved(ctx, "C05", "PsycheModel.Props.C05")


def replay(ctx, rec):
    stages.cxx_stage(ctx, "ndebug")
    l = rec["replay"]["case"]
    a = stages.run_harness(ctx, "lex", [l])[0]
    m = leanb.model("lex", l + "\n")[0]
    print("text :", bytes.fromhex(l.split()[1])[:300]); print("impl :", a[:1500]); print("model:", m[:1500])
    if "expected" in rec["replay"]:
        print("expected:", rec["replay"]["expected"])
    if " | ".join(a.split(" | ")[:2]).rstrip() != m.rstrip():
        ctx.report("replay", "the real lexer and the model/oracle still differ", rec["replay"], no_input="corr" in rec.get("key", ""))
    ctx.cov.update({"evaluations": 1, "samples": [l[:200]]})
    return ctx.finish()
