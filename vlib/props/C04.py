"""C04 — Every valid C11 translation unit is accepted by the parser.

Proof: lean/PsycheModel/Props/C04.lean: for statements nested to any depth and every context, the parser model reports
a case/default/continue/break placement diagnostic exactly when C11 forbids the placement (so no valid nesting is
rejected); the expression and declarator fragments are C06's and C07's theorems.
Tie: the real Parser::StatementContext operator+ on all 16 pairs vs the model's (complete), and every nesting of
for/while/do/switch/if/if-else/else/block/label/case/default to depth 3 (thorough 4) with each leaf, parser vs model.
Oracle sweep (the property itself): programs from every generator of this framework (grammar-based C11/GNU/K&R
programs, declarations drawn from types, scope/typedef/ambiguity programs, typed construct tests), accepted by gcc
-fsyntax-only under the matching -std, must parse with no Error diagnostic and to the end of the text, under the
dialects C99/C11/C17; and again after the declarations that give the identifiers their meaning were removed."""
import collections, concurrent.futures, random, re, sys
from .. import stages, leanb
from ..common import ROOT, sh
sys.path.insert(0, ROOT)
from gen.nestgen import nestings
from gen.cgen import Gen
from gen.declgen import DeclGen, PRELUDE as DECL_PRELUDE
from gen.scopegen import ScopeGen
from gen.typedefgen import TypedefGen
from gen.ambiggen import AmbigGen
from gen.typedgen import tests as typed_tests, program as typed_program, has_initializer

STD = {"c89": 0, "c99": 1, "c11": 2, "c17": 3, "gnu11": 2}
GCCSTD = {"c89": "c90", "c99": "c99", "c11": "c11", "c17": "c17", "gnu11": "gnu11"}
CTX_IDS = ("Parser-308", "Parser-309", "Parser-310", "Parser-311")

# valid (GNU) C the parser rejects: recorded finding.  The shapes a symbol-table-free parser reads WRONGLY but without error
# ('T (x[3]);', '(T) {', 'int (T [3])') are replayed by C07, whose subject (the bound symbols) they affect.
BLIND = [
    ("paren-declarator-asm-label", "extern int (v) asm(\"x\");\n", "an asm label after a parenthesised declarator is rejected ('extern int (v) asm(\"x\");', GNU)"),
]


def parse_line(std, text, mode=2):
    return "parse %d,1,0,%d,%s %s" % (STD[std], mode, "d" * 31, (text.encode() or b" ").hex())


def run(ctx):
    proved = stages.lean_stage(ctx, "PsycheModel.Props.C04")
    stages.cxx_stage(ctx, "ndebug")
    rng = ctx.rng
    nviol = 0

    def viol(key, what, text, line):
        nonlocal nviol
        nviol += 1
        return ctx.report(key, what, {"component": "accept", "case": line, "text": text})

    # --- (0) the statement parser model (Stmt.lean; theorem statement_parse_pp) <-> the real parser: every token string up to length 4
    # (thorough 5) over the statement alphabet + printed random statement trees (derivable or not) and their token mutations; trees
    # compared (expressions and declarations abstracted), verdicts compared
    from .C06 import dump_to_sexpr, sx
    ALPH = ["e", "d", "L", ";", "{", "}", "(", ")", ":", "if", "else", "switch", "case", "default", "while", "do", "for", "goto", "continue", "break", "return"]
    SPELL_E = ["1", "x + 1", "! y", "2 * z"]
    SPELL_D = ["int v ;", "static long w = 1 ;", "const char * p ;"]

    def gen_stmt(d):
        k = rng.randrange(20) if d > 0 else rng.randrange(8)
        sub = lambda: gen_stmt(d - 1)
        if k == 0: return ["e", ";"]
        if k == 1: return [";"]
        if k == 2: return ["d"]
        if k == 3: return ["goto", "L", ";"]
        if k == 4: return ["continue", ";"]
        if k == 5: return ["break", ";"]
        if k == 6: return ["return", ";"]
        if k == 7: return ["return", "e", ";"]
        if k == 8: return ["{"] + [t for _ in range(rng.randrange(0, 4)) for t in sub()] + ["}"]
        if k in (9, 10): return ["if", "(", "e", ")"] + sub()
        if k in (11, 12): return ["if", "(", "e", ")"] + sub() + ["else"] + sub()
        if k == 13: return ["switch", "(", "e", ")"] + sub()
        if k == 14: return ["case", "e", ":"] + sub()
        if k == 15: return ["default", ":"] + sub()
        if k == 16: return ["L", ":"] + sub()
        if k == 17: return ["while", "(", "e", ")"] + sub()
        if k == 18: return ["do"] + sub() + ["while", "(", "e", ")", ";"]
        init = rng.choice([[";"], ["e", ";"], ["d"]])
        return ["for", "("] + init + rng.choice([[], ["e"]]) + [";"] + rng.choice([[], ["e"]]) + [")"] + sub()

    def render_s(toks):
        return " ".join(rng.choice(SPELL_E) if t == "e" else rng.choice(SPELL_D) if t == "d" else "L1" if t == "L" else t for t in toks)
    import itertools as _it
    sstrings = []
    for n_ in (1, 2, 3, 4) if ctx.quick else (1, 2, 3, 4, 5):
        sstrings += [list(p_) for p_ in _it.product(ALPH, repeat=n_)] if n_ <= 3 or not ctx.quick else [[rng.choice(ALPH) for _ in range(4)] for _ in range(20000)]
    for _ in range(3000 if ctx.quick else 60000):
        t = gen_stmt(rng.choice([1, 2, 2, 3, 3, 4]))
        if len(t) > 60:
            continue
        sstrings.append(t)
        m_ = list(t)
        for _ in range(rng.randrange(1, 3)):
            j = rng.randrange(len(m_) + 1)
            r_ = rng.random()
            if r_ < 0.35 and m_: del m_[min(j, len(m_) - 1)]
            elif r_ < 0.7: m_.insert(j, rng.choice(ALPH))
            elif m_: m_[min(j, len(m_) - 1)] = rng.choice(ALPH)
        if m_:
            sstrings.append(m_)
    # a declaration token of the model is a keyword-started declaration: `L` (an identifier) directly in front of `d`, an expression or
    # another identifier would make identifier-started declarations / juxtapositions the model does not have (C09's ground)
    sstrings = [t for t in sstrings if not any(t[j] == "L" and not ((j + 1 < len(t) and t[j + 1] == ":" and not (j and t[j - 1] in ("goto", "case"))) or (j and t[j - 1] == "goto" and j + 1 < len(t) and t[j + 1] == ";")) for j in range(len(t)))]
    # an expression is ONE token of the model: a `(` that does not follow if / switch / while / for would begin (or continue, as a call) an expression
    sstrings = [t for t in sstrings if not any(t[j] == "(" and not (j and t[j - 1] in ("if", "switch", "while", "for")) for j in range(len(t)))]
    stexts = [render_s(t) for t in sstrings]
    slines = ["2,1,0,2,%s s %s" % ("d" * 31, t.encode().hex()) for t in stexts]
    simpl = stages.run_harness(ctx, "tree", slines)
    smodel = leanb.model("stmt", "\n".join(" ".join(t) for t in sstrings) + "\n")
    EXPRK = re.compile(r"Expression$|^IdentifierName$|Constant")

    def norms(e):
        if EXPRK.search(e[0]) and e[0] != "ExpressionStatement": return ("e",)
        if e[0] == "DeclarationStatement": return ("d",)
        return (e[0],) + tuple(norms(c) for c in e[1:])
    ns_ok = ns_fail = ns_dis = 0
    for t, txt, i, m, l in zip(sstrings, stexts, simpl, smodel, slines):
        if i.startswith(("CRASH", "HANG")):
            viol("crash:" + txt[:80], "parsing the statement %r: %s" % (txt, i[:200]), txt, l); continue
        try:
            ntok = int(i.split(" ;")[0]) - 2          # the dump starts with the token count (a leading marker and EOF included)
        except ValueError:
            ntok = -1
        # the placement diagnostics (case / default / continue / break outside their construct) are StmtCtx's subject, not the shape's
        diags = ",".join(x for x in i.split(" | ")[-1].split(",") if not x.startswith(("Parser-308", "Parser-309", "Parser-310", "Parser-311"))) or "-"
        full = re.search(r"N0 \w+ f1 l%d " % ntok, i) is not None
        got = dump_to_sexpr(i) if diags == "-" and full else None
        gs = sx(norms(got)) if got else "FAIL"
        ms = m if m in ("FAIL", "UNMODELLED") else m[2:]
        if ms == "UNMODELLED":
            continue
        if ms == "FAIL" and gs != "FAIL" and diags != (i.split(" | ")[-1].strip() or "-"):
            continue            # a placement diagnostic may hide a syntax failure (see stage 0e)
        if ms == "FAIL": ns_fail += 1
        else: ns_ok += 1
        if gs != ms:
            ns_dis += 1
            derivable = m.startswith("1 ")
            if ns_dis <= 4:
                ctx.report(("stmt:" if derivable else "stmt-corr:") + txt[:100],
                           "statement %r: the parser built %s, %s %s" % (txt, gs, "the grammar (Lean model of the statement parser, proved to invert the grammar's printing) gives" if derivable else "the Lean model of the statement parser gives", ms),
                           {"component": "tree", "case": l, "impl": gs, "model": ms, "tokens": " ".join(t)}, no_input=not derivable)
            if derivable:
                nviol += 1
    ctx.notes["statement_model"] = {"strings": len(sstrings), "parsed_by_both": ns_ok, "rejected_by_model": ns_fail, "disagreements": ns_dis}
    # --- (0b) the initializer parser model (Init.lean; theorems initializer_parse_pp / initializer_parse_sound) <-> the real parser: every
    # token string up to length 4 (thorough 5) over the initializer alphabet + printed random initializer trees and their token mutations,
    # each as the initializer of a declaration (`int v = T ;`) and as the list of a brace-enclosed one (`struct s v = { T } ;`)
    IALPH = ["e", "m", "{", "}", ",", ".", "[", "]", "="]
    ISPELL_E = ["1", "x + 1", "- y", "f ( 2 , 3 )", "( a , b )", "z ? 1 : 2"]

    def gen_init(d, top=True):
        k = rng.randrange(10) if d > 0 else 0
        if not top and rng.random() < 0.35:
            ds = []
            for _ in range(rng.randrange(1, 4)):
                ds += [".", "m"] if rng.random() < 0.5 else ["[", "e", "]"]
            return ds + ["="] + gen_init(d, True)
        if k < 4:
            return ["e"]
        items = []
        for j in range(rng.randrange(1, 5)):
            items += ([","] if j else []) + gen_init(d - 1, False)
        return ["{"] + items + ([","] if rng.random() < 0.3 else []) + ["}"]

    istrings = []
    for n_ in (1, 2, 3, 4) if ctx.quick else (1, 2, 3, 4, 5):
        istrings += [list(p_) for p_ in _it.product(IALPH, repeat=n_)]
    for _ in range(2500 if ctx.quick else 40000):
        t = gen_init(rng.choice([1, 2, 2, 3, 4]))
        if len(t) > 70:
            continue
        istrings.append(t)
        m_ = list(t)
        for _ in range(rng.randrange(1, 3)):
            j = rng.randrange(len(m_) + 1)
            r_ = rng.random()
            if r_ < 0.35 and m_: del m_[min(j, len(m_) - 1)]
            elif r_ < 0.7: m_.insert(j, rng.choice(IALPH))
            elif m_: m_[min(j, len(m_) - 1)] = rng.choice(IALPH)
        if m_:
            istrings.append(m_)
    # an expression is ONE token of the model: `e` directly in front of `[`, `.`, `=` or another expression would continue it (subscript, member
    # access, assignment, a binary reading of `- y`); a member name stands only after `.` (alone it is an expression)
    istrings = [t for t in istrings
                if not any(t[j] == "e" and j + 1 < len(t) and t[j + 1] in ("[", ".", "=", "e", "m") for j in range(len(t)))
                and not any(t[j] == "m" and not (j and t[j - 1] == ".") for j in range(len(t)))]
    istrings = [list(x) for x in dict.fromkeys(tuple(t) for t in istrings)]

    def render_i(toks):
        return " ".join(rng.choice(ISPELL_E) if t == "e" else "mem" if t == "m" else t for t in toks)
    icases = []
    for t in istrings:
        body = render_i(t)
        icases.append((t, t, "int v = %s ;" % body))
        icases.append((t, ["{"] + t + ["}"], "struct s v = { %s } ;" % body))
    ilines = ["2,1,0,2,%s a %s" % ("d" * 31, txt.encode().hex()) for _, _, txt in icases]
    iimpl = stages.run_harness(ctx, "tree", ilines)
    imodel = leanb.model("init", "\n".join(" ".join(mt) for _, mt, _ in icases) + "\n")

    def init_sexpr(dump):
        recs = {}
        for r in dump.split(" | ")[0].split(" ; ")[1:]:
            w = r.split()
            if w[0].startswith("N"):
                recs[int(w[0][1:])] = (w[1], " ".join(w[w.index(":") + 1:]))
        decl = [v for v in recs.values() if v[0] == "IdentifierDeclarator"]
        if len(decl) != 1:
            return None
        m = re.findall(r"\bn(\d+)", decl[0][1])
        if len(m) != 1:
            return None

        def build(i):
            kind, hs = recs[i]
            if kind == "ExpressionInitializer":
                return "e"
            if kind == "BraceEnclosedInitializer":
                ent = re.findall(r"(\d+),(\d+)", re.search(r"L\(([^)]*)\)", hs).group(1))
                tc = bool(ent) and ent[-1][1] != "0"
                return "(Brace" + ("," if tc else "") + "".join(" " + build(int(e)) for e, _ in ent) + ")"
            if kind == "DesignatedInitializer":
                ds = re.findall(r"(\d+),\d+", re.search(r"L\(([^)]*)\)", hs).group(1))
                ini = re.findall(r"\bn(\d+)", hs)
                return "(Desig" + "".join(" " + build(int(e)) for e in ds) + " " + (build(int(ini[0])) if ini else "?") + ")"
            if kind == "FieldDesignator":
                return "F"
            if kind == "ArrayDesignator":
                return "(A e)"
            return "?" + kind
        return build(int(m[0]))
    ni_ok = ni_fail = ni_dis = ni_skip = 0
    for (t, mt, txt), i, m, l in zip(icases, iimpl, imodel, ilines):
        if i.startswith(("CRASH", "HANG")):
            viol("crash:" + txt[:80], "parsing %r: %s" % (txt, i[:200]), txt, l); continue
        if m == "UNMODELLED":
            continue
        if m.startswith("REST") and mt is t:
            # `int v = 1 , …`: what is left after the initializer may be further declarators - the declaration's business, not the initializer's
            ni_skip += 1
            continue
        try:
            ntok = int(i.split(" ;")[0]) - 2
        except ValueError:
            ntok = -1
        diags = i.split(" | ")[-1].strip() or "-"
        full = re.search(r"N0 \w+ f1 l%d " % ntok, i) is not None
        gs = init_sexpr(i) if diags == "-" and full else None
        gs = gs or "FAIL"
        ms = m[2:] if m[:2] in ("0 ", "1 ") else "FAIL"
        if ms == "FAIL": ni_fail += 1
        else: ni_ok += 1
        if gs != ms:
            ni_dis += 1
            derivable = m.startswith("1 ")
            if ni_dis <= 4:
                ctx.report(("init:" if derivable else "init-corr:") + txt[:100],
                           "initializer in %r: the parser built %s, %s %s" % (txt, gs, "the grammar (Lean model of the initializer parser, proved to invert the grammar's printing) gives" if derivable else "the Lean model of the initializer parser gives", ms),
                           {"component": "tree", "case": l, "impl": gs, "model": ms, "tokens": " ".join(mt)}, no_input=not derivable)
            if derivable:
                nviol += 1
    ctx.notes["initializer_model"] = {"strings": len(icases), "parsed_by_both": ni_ok, "rejected_by_model": ni_fail, "left_to_the_declaration": ni_skip, "disagreements": ni_dis}
    # --- (0c) the struct / union / enum specifier parser model (TagBody.lean; theorems tag_parse_pp / tag_parse_sound / accepts_more_than_C11)
    # <-> the real parser: every token string up to length 5 (thorough 6) + printed random specifiers and their token mutations, as `T ;`
    SALPH = ["T", "s", "d", "e", "{", "}", ";", ",", ":", "="]
    EALPH = ["T", "e", "{", "}", ",", "=", ";", ":"]

    def gen_tag():
        if rng.random() < 0.5:
            out = ["struct"] + (["T"] if rng.random() < 0.6 else []) + ["{"]
            for _ in range(rng.randrange(0, 4)):
                out += ["s"] * rng.randrange(1, 3)
                nd = rng.randrange(0, 4)
                for j in range(nd):
                    out += ([","] if j else []) + rng.choice([["d"], ["d", ":", "e"], [":", "e"]])
                out += [";"]
            return out + ["}"]
        out = ["enum"] + (["T"] if rng.random() < 0.6 else []) + ["{"]
        n = rng.randrange(0, 5)
        for j in range(n):
            out += ["T"] + (["=", "e"] if rng.random() < 0.4 else []) + ([","] if j + 1 < n or rng.random() < 0.3 else [])
        return out + ["}"]
    tstrings = []
    for n_ in range(0, 5 if ctx.quick else 6):
        for kw, al in (("struct", SALPH), ("enum", EALPH)):
            prod = list(_it.product(al, repeat=n_))
            if len(prod) > 12000:
                prod = rng.sample(prod, 12000)
            tstrings += [[kw] + list(p_) for p_ in prod]
    for _ in range(2500 if ctx.quick else 40000):
        t = gen_tag()
        tstrings.append(t)
        m_ = list(t)
        al = SALPH if t[0] == "struct" else EALPH
        for _ in range(rng.randrange(1, 3)):
            j = rng.randrange(1, len(m_) + 1)
            r_ = rng.random()
            if r_ < 0.35 and len(m_) > 1: del m_[min(j, len(m_) - 1)]
            elif r_ < 0.7: m_.insert(j, rng.choice(al))
            elif len(m_) > 1: m_[min(j, len(m_) - 1)] = rng.choice(al)
        tstrings.append(m_)
    # in a struct body an identifier is a declarator (the model's `d`): `T` stands only directly after the keyword there
    tstrings = [t for t in tstrings if t[0] == "enum" or not any(t[j] == "T" and j != 1 for j in range(len(t)))]
    tstrings = [t for t in tstrings if not (len(t) > 1 and t[1] == "d")]        # ... and a declarator there would be read as the tag
    # an identifier that begins a member declaration is read as a typedef name (a specifier); one after `=` is an expression
    tstrings = [t for t in tstrings if not any(t[j] == "d" and t[j - 1] in ("{", ";", "}") for j in range(1, len(t)))
                and not any(t[j] in ("T", "d") and t[j - 1] in ("=", ":") for j in range(1, len(t)))]
    tstrings = [list(x) for x in dict.fromkeys(tuple(t) for t in tstrings)]

    def render_t(toks):
        out = []
        for j, t in enumerate(toks):
            nxt = toks[j + 1] if j + 1 < len(toks) else ""
            prv = toks[j - 1] if j else ""
            if t == "T": out.append("tg" if j == 1 else "K%d" % j)
            elif t == "s": out.append(rng.choice(["int", "unsigned", "long", "char"]))
            elif t == "d": out.append("m%d" % j if nxt == ":" or prv == "e" else rng.choice(["m%d", "a%d [ 2 ]", "* p%d", "( * f%d ) ( void )"]) % j)
            elif t == "e": out.append(rng.choice(["1", "2 + 3", "4 * 2"]))     # (not `sizeof ( int )`: a `{` after it would make a compound literal)
            else: out.append(t)
        return " ".join(out) + " ;"
    ttexts = [render_t(t) for t in tstrings]
    tlines = ["2,1,0,2,%s a %s" % ("d" * 31, txt.encode().hex()) for txt in ttexts]
    timpl = stages.run_harness(ctx, "tree", tlines)
    tmodel = leanb.model("tag", "\n".join(" ".join(t) for t in tstrings) + "\n")

    def tag_sexpr(dump):
        recs, order = {}, []
        for r in dump.split(" | ")[0].split(" ; ")[1:]:
            w = r.split()
            if w[0].startswith("N"):
                recs[int(w[0][1:])] = (w[1], w[w.index(":") + 1:])
                order.append(int(w[0][1:]))
        top = [i for i in order if recs[i][0] in ("StructTypeSpecifier", "UnionTypeSpecifier", "EnumTypeSpecifier")]
        if not top:
            return None
        kind, hs = recs[top[0]]
        # holders: keyword, attributes, tag, open brace, declarations, close brace, attributes
        lists = [h for h in " ".join(hs).replace("L(", " L(").split(" L(")[1:]]
        toks = [h for h in hs if re.fullmatch(r"t\d+", h)]
        if len(toks) != 4:
            return "?holders"
        kw, tagt, ob, cb = toks
        name = "Struct" if kind != "EnumTypeSpecifier" else "Enum"
        if ob == "t0":
            return name + "Ref"
        ents = re.findall(r"(\d+),\d+", lists[1].split(")")[0])
        out = []
        for e in ents:
            k, h = recs[int(e)]
            hj = " ".join(h)
            if k == "FieldDeclaration":
                ls = re.findall(r"L\(([^)]*)\)", hj)
                ds = []
                for d_ in re.findall(r"(\d+),\d+", ls[1]):
                    dk, dh = recs[int(d_)]
                    ds.append(("B" if dh[0] != "n-" else "U") if dk == "BitfieldDeclarator" else "D")
                out.append("(Field %d%s)" % (len(re.findall(r"(\d+),\d+", ls[0])), "".join(" " + x for x in ds)))
            elif k == "IncompleteDeclaration":
                out.append("(Incomplete %d)" % len(re.findall(r"(\d+),\d+", re.findall(r"L\(([^)]*)\)", hj)[0])))
            elif k == "EnumeratorDeclaration":
                out.append("E" + ("=" if h[-2] != "n-" else "") + ("," if h[-1] != "t0" else ""))
            else:
                out.append("?" + k)
        return "(" + name + ("T" if tagt != "t0" else "") + "".join(" " + x for x in out) + ")"
    nt_ok = nt_fail = nt_dis = nt_skip = nt_lenient = 0
    for t, txt, i, m, l in zip(tstrings, ttexts, timpl, tmodel, tlines):
        if i.startswith(("CRASH", "HANG")):
            viol("crash:" + txt[:80], "parsing %r: %s" % (txt, i[:200]), txt, l); continue
        if m == "UNMODELLED":
            continue
        if m.startswith("REST"):
            nt_skip += 1                      # what follows the specifier (declarators, further specifiers) is the declaration's business
            continue
        try:
            ntok = int(i.split(" ;")[0]) - 2
        except ValueError:
            ntok = -1
        diags = i.split(" | ")[-1].strip() or "-"
        full = re.search(r"N0 \w+ f1 l%d " % ntok, i) is not None
        gs = tag_sexpr(i) if diags == "-" and full else None
        gs = gs or "FAIL"
        ms = m[2:] if m[:2] in ("0 ", "1 ") else "FAIL"
        if ms == "FAIL": nt_fail += 1
        else: nt_ok += 1
        if m.startswith("0 "): nt_lenient += 1
        if gs != ms:
            nt_dis += 1
            derivable = m.startswith("1 ")
            if nt_dis <= 4:
                ctx.report(("tag:" if derivable else "tag-corr:") + txt[:100],
                           "specifier %r: the parser built %s, %s %s" % (txt, gs, "the grammar (Lean model of the specifier parser, proved to invert the grammar's printing) gives" if derivable else "the Lean model of the specifier parser gives", ms),
                           {"component": "tree", "case": l, "impl": gs, "model": ms, "tokens": " ".join(t)}, no_input=not derivable)
            if derivable:
                nviol += 1
    ctx.notes["tag_specifier_model"] = {"strings": len(tstrings), "parsed_by_both": nt_ok, "of_which_not_derivable_in_C11": nt_lenient, "rejected_by_model": nt_fail,
                                        "left_to_the_declaration": nt_skip, "disagreements": nt_dis}
    # --- (0d) the declaration parser model (Declaration.lean composed with DeclParser.lean by the driver; theorems declaration_parse_pp /
    # declaration_parse_sound / object_declarator_may_be_initialized) <-> the real parser: `specifiers init-declarator-list ;` and function
    # definitions: which declarators may carry an initializer, typedef or variable declaration, which declarator makes a definition
    # `s` a type specifier keyword, `q` a specifier that is not a type specifier, `g` a tag declaration (`struct S { int m ; }`): the loop of
    # parseDeclarationSpecifiers before and after a tag declaration (theorems one_type_specifier_anywhere / no_type_specifier_after_tag_declaration)
    DALPH = ["s", "typedef", "q", "g", "*", "(", ")", "[", "]", "3", "x", "c", ",", "=", "i", ";", "b"]
    SPECW = ("s", "typedef", "q", "g")
    DSHAPES = [["x"], ["*", "x"], ["*", "c", "x"], ["x", "[", "3", "]"], ["x", "[", "]"], ["x", "(", "s", ")"], ["x", "(", ")"], ["(", "x", ")"],
               ["(", "*", "x", ")", "(", "s", ")"], ["*", "x", "(", "s", ")"], ["(", "*", "x", "[", "3", "]", ")", "(", "s", ")"], ["x", "(", "s", "x", ",", "s", "*", ")"],
               ["(", "(", "*", "x", ")", ")", "(", ")"], ["(", "x", ")", "[", "3", "]"], ["*", "*", "x"], ["x", "(", "s", ")", "[", "3", "]"], ["(", "x", "(", "s", ")", ")"]]

    def gen_decl():
        sp = ["s"] * rng.randrange(1, 3)
        if rng.random() < 0.3:
            sp = ["g"] if rng.random() < 0.8 else rng.choice([["g", "s"], ["s", "g"], ["g", "g"]])
        for _ in range(rng.choice([0, 0, 1, 1, 2, 3])):
            sp.insert(rng.randrange(len(sp) + 1), "q")
        if rng.random() < 0.25:
            sp.insert(rng.randrange(len(sp) + 1), "typedef")
        if rng.random() < 0.07:
            return sp + [";"]
        if rng.random() < 0.25:
            return sp + rng.choice(DSHAPES) + (["=", "i"] if rng.random() < 0.15 else []) + ["b"]
        out = list(sp)
        for j in range(rng.randrange(1, 4)):
            out += ([","] if j else []) + rng.choice(DSHAPES) + (["=", "i"] if rng.random() < 0.4 else [])
        return out + [";"]
    dstrings = []
    for n_ in range(0, 4 if ctx.quick else 5):
        dstrings += [["s"] + list(p_) for p_ in _it.product(DALPH, repeat=n_)]
        if n_ < 4:
            dstrings += [["g"] + list(p_) for p_ in _it.product(DALPH, repeat=n_)]
    for _ in range(3000 if ctx.quick else 40000):
        t = gen_decl()
        dstrings.append(t)
        m_ = list(t)
        for _ in range(rng.randrange(1, 3)):
            j = rng.randrange(1, len(m_) + 1)
            r_ = rng.random()
            if r_ < 0.35 and len(m_) > 1: del m_[min(j, len(m_) - 1)]
            elif r_ < 0.7: m_.insert(j, rng.choice(DALPH))
            elif len(m_) > 1: m_[min(j, len(m_) - 1)] = rng.choice(DALPH)
        dstrings.append(m_)

    def modelled(t):
        """the renderings below make some token neighbourhoods mean something the model's alphabet does not have"""
        for j, w in enumerate(t):
            prv = t[j - 1] if j else ""
            nxt = t[j + 1] if j + 1 < len(t) else ""
            if w == "i" and (prv != "=" or nxt not in (",", ";", "b", "")): return False      # an expression: would absorb its neighbours
            if w == "=" and nxt != "i": return False
            if w == "[" and nxt not in ("3", "]"): return False                                 # an identifier / qualifier as array size
            if w == "3" and not (prv == "[" and nxt == "]"): return False
            if w == "(" and prv in ("x", ")", "]") and nxt not in ("s", ")"): return False     # identifier lists, typedef-name parameters
            if w == "c" and prv not in ("*", "c"): return False                                 # a qualifier elsewhere is a specifier
            if w == "b" and (nxt != "" or ";" in t[:j]): return False                           # K&R parameter declarations; text after a definition
            if w == "x" and prv in ("x", ")", "]", "3"): return False                           # juxtaposed identifiers: typedef-name guesses
            if w == "x" and nxt in ("*", "x", "c"): return False                                # an identifier in front of a declarator: a typedef name
            if w == "x" and prv == "," and t[:j].count("(") > t[:j].count(")"): return False     # an identifier as a whole parameter: a typedef name
            if w == "s" and j and prv not in SPECW + ("(", ","): return False                    # a specifier after a declarator token
            if w == "typedef" and j and prv not in SPECW: return False
            if w in ("q", "g") and any(x not in SPECW for x in t[:j]): return False              # only among the declaration's own specifiers
            if w in SPECW and prv in SPECW and any(x not in SPECW for x in t[:j]): return False   # a parameter has ONE specifier in the model
        return True
    # a type specifier among the leading specifiers (with `typedef` alone the parser reads the first identifier as the type: a typedef name)
    def has_type(t):
        return any(w in ("s", "g") for w in _it.takewhile(lambda w: w in SPECW, t))
    dstrings = [t for t in dstrings if modelled(t) and has_type(t)]
    dstrings = [list(x) for x in dict.fromkeys(tuple(t) for t in dstrings)]

    def render_d(toks):
        out, seen_decl = [], False
        for j, w in enumerate(toks):
            if w not in SPECW:
                seen_decl = True
            if w == "q": out.append(rng.choice(["const", "volatile", "static", "extern", "register", "_Alignas ( 8 )", "_Thread_local", "inline", "_Noreturn", "auto", "restrict"]))
            elif w == "g": out.append(rng.choice(["struct S%d { int m ; }", "union S%d { int m ; long n ; }", "enum S%d { K%d }", "struct { int m%d ; }", "enum { K%d , L%d }"]).replace("%d", str(j)))
            elif w == "s": out.append("int" if seen_decl or j == 0 or "int" in out else rng.choice(["int", "long", "unsigned", "char"]))
            elif w == "x": out.append("v%d" % j)
            elif w == "c": out.append(rng.choice(["const", "volatile"]))
            elif w == "i": out.append(rng.choice(["1", "{ 1 , 2 }", "0"]))
            elif w == "b": out.append(rng.choice(["{ }", "{ return ; }"]))
            else: out.append(w)
        return " ".join(out)
    dtexts = [render_d(t) for t in dstrings]
    dlines = ["2,1,0,2,%s a %s" % ("d" * 31, txt.encode().hex()) for txt in dtexts]
    dimpl = stages.run_harness(ctx, "tree", dlines)
    dmodel = leanb.model("declaration", "\n".join(" ".join(t) for t in dstrings) + "\n")
    DK = {"IdentifierDeclarator": "I", "PointerDeclarator": "P", "ArrayDeclarator": "A", "FunctionDeclarator": "F", "ParenthesizedDeclarator": "R", "BitfieldDeclarator": "B"}

    def decl_sexpr(dump):
        recs = {}
        for r in dump.split(" | ")[0].split(" ; ")[1:]:
            w = r.split()
            if w[0].startswith("N"):
                recs[int(w[0][1:])] = (w[1], w[w.index(":") + 1:])
        tu = recs.get(0)
        if not tu:
            return None
        tops = re.findall(r"(\d+),\d+", " ".join(tu[1]))
        if len(tops) != 1:
            return None
        kind, hs = recs[int(tops[0])]
        hj = " ".join(hs)
        lists = re.findall(r"L\(([^)]*)\)", hj)

        def kids(i):
            return [int(x) for x in re.findall(r"\bn(\d+)", " ".join(recs[i][1]))]

        def shape(i):
            k = recs[i][0]
            if k not in DK:
                return "?" + k
            inner = [c for c in kids(i) if recs[c][0].endswith("Declarator")]
            return DK[k] + ("(" + shape(inner[0]) + ")" if inner else "")

        def has_init(i):
            return any(recs[c][0].endswith("Initializer") or (recs[c][0].endswith("Declarator") and has_init(c)) for c in kids(i))
        nsp = len(re.findall(r"(\d+),\d+", lists[0])) if lists else 0
        if kind in ("StructDeclaration", "UnionDeclaration", "EnumDeclaration"):
            return "Tag"
        if kind == "IncompleteDeclaration":
            return "Incomplete %d" % nsp
        if kind in ("VariableAndOrFunctionDeclaration", "TypedefDeclaration"):
            ds = [int(x) for x in re.findall(r"(\d+),\d+", lists[1])]
            return ("Variable" if kind[0] == "V" else "Typedef") + " %d" % nsp + "".join(" " + shape(d_) + ("=" if has_init(d_) else "") for d_ in ds)
        if kind == "FunctionDefinition":
            dd = [c for c in kids(int(tops[0])) if recs[c][0].endswith("Declarator")]
            return "FunctionDefinition %d %s" % (nsp, shape(dd[0]) if dd else "?")
        return "?" + kind
    nd_ok = nd_fail = nd_dis = 0
    for t, txt, i, m, l in zip(dstrings, dtexts, dimpl, dmodel, dlines):
        if i.startswith(("CRASH", "HANG")):
            viol("crash:" + txt[:80], "parsing %r: %s" % (txt, i[:200]), txt, l); continue
        try:
            ntok = int(i.split(" ;")[0]) - 2
        except ValueError:
            ntok = -1
        diags = i.split(" | ")[-1].strip() or "-"
        full = re.search(r"N0 \w+ f1 l%d " % ntok, i) is not None
        gs = decl_sexpr(i) if diags == "-" and full else None
        gs = gs or "FAIL"
        if m == "FAIL": nd_fail += 1
        else: nd_ok += 1
        if gs != m:
            nd_dis += 1
            if nd_dis <= 4:
                ctx.report(("decl:" if m != "FAIL" else "decl-corr:") + txt[:100],
                           "declaration %r: the parser built %s, the Lean model of the declaration parser (composed with the declarator parser model) gives %s" % (txt, gs, m),
                           {"component": "tree", "case": l, "impl": gs, "model": m, "tokens": " ".join(t)}, no_input=(m == "FAIL"))
            if m != "FAIL":
                nviol += 1
    ctx.notes["declaration_model"] = {"strings": len(dstrings), "parsed_by_both": nd_ok, "rejected_by_model": nd_fail, "disagreements": nd_dis}
    # --- (0d') translation units: sequences of such declarations, definitions and stray `;` (theorems unit_parse_pp / unit_parse_sound)
    ustrings = []
    pool = [t for t, m in zip(dstrings, dmodel) if m != "FAIL"]
    for _ in range(1500 if ctx.quick else 20000):
        t = [w for _ in range(rng.randrange(1, 5)) for w in (rng.choice(pool) if rng.random() < 0.85 else [";"])]
        ustrings.append(t)
        if rng.random() < 0.5:
            m_ = list(t)
            j = rng.randrange(len(m_) + 1)
            r_ = rng.random()
            if r_ < 0.4 and len(m_) > 1: del m_[min(j, len(m_) - 1)]
            elif r_ < 0.8: m_.insert(j, rng.choice(DALPH))
            else: m_[min(j, len(m_) - 1)] = rng.choice(DALPH)
            if m_ and all(modelled(part) and has_type(part) for part in [m_]):
                ustrings.append(m_)

    def umodelled(t):
        # each declaration of the sequence by itself (split after `;` and `b`) obeys the rules above
        parts, cur = [], []
        for w in t:
            cur.append(w)
            if w in (";", "b"):
                parts.append(cur); cur = []
        if cur: parts.append(cur)
        return all(p_ == [";"] or (modelled(p_) and has_type(p_)) for p_ in parts)
    ustrings = [list(x) for x in dict.fromkeys(tuple(t) for t in ustrings) if umodelled(list(x))]
    utexts = [render_d(t) for t in ustrings]
    ulines = ["2,1,0,2,%s a %s" % ("d" * 31, txt.encode().hex()) for txt in utexts]
    uimpl = stages.run_harness(ctx, "tree", ulines)
    umodel = leanb.model("unit", "\n".join(" ".join(t) for t in ustrings) + "\n")

    def unit_sexpr(dump):
        recs = {}
        for r in dump.split(" | ")[0].split(" ; ")[1:]:
            w = r.split()
            if w[0].startswith("N"):
                recs[int(w[0][1:])] = (w[1], w[w.index(":") + 1:])
        tu = recs.get(0)
        if not tu:
            return None
        out = []
        for top in re.findall(r"(\d+),\d+", " ".join(tu[1])):
            # reuse the single-declaration reader on a dump cut down to this declaration
            one = decl_sexpr(dump.split(" | ")[0].replace(" ".join(tu[1]), "L(%s,0)" % top, 1) + " | x | -")
            out.append(one or "?")
        return " ; ".join(out)
    nu_ok = nu_fail = nu_dis = 0
    for t, txt, i, m, l in zip(ustrings, utexts, uimpl, umodel, ulines):
        if i.startswith(("CRASH", "HANG")):
            viol("crash:" + txt[:80], "parsing %r: %s" % (txt, i[:200]), txt, l); continue
        try:
            ntok = int(i.split(" ;")[0]) - 2
        except ValueError:
            ntok = -1
        diags = i.split(" | ")[-1].strip() or "-"
        full = re.search(r"N0 \w+ f1 l%d " % ntok, i) is not None
        gs = (unit_sexpr(i) if diags == "-" and full else None) or "FAIL"
        if m == "FAIL": nu_fail += 1
        else: nu_ok += 1
        if gs != m:
            nu_dis += 1
            if nu_dis <= 4:
                ctx.report("unit-corr:" + txt[:100], "translation unit %r: the parser built [%s], the Lean model of the unit loop (composed with the declaration and declarator models) gives [%s]" % (txt, gs, m),
                           {"component": "tree", "case": l, "impl": gs, "model": m, "tokens": " ".join(t)}, no_input=True)
    ctx.notes["translation_unit_model"] = {"strings": len(ustrings), "parsed_by_both": nu_ok, "rejected_by_model": nu_fail, "disagreements": nu_dis}
    # --- (0e) COMPOSITION: the statement parser model with the all-layers expression parser model inside it (driver `body`: every `e` of
    # Stmt.lean is produced by Expr.nary itself, at the constant-expression level after `case`) <-> the real parser on whole statements with
    # real expressions: where an expression ends (`)` of a header, `:` of a label against `?:`, `;`, `,` in calls against the comma operator)
    XSPELL = {"a": None, "T": "int", "PlusToken": "+", "AsteriskToken": "*", "MinusToken": "-", "EqualsToken": "=", "CommaToken": ",", "QuestionToken": "?",
              "OpenBracketToken": "[", "CloseBracketToken": "]", "DotToken": ".", "PlusPlusToken": "++", "ExclamationToken": "!", "BarBarToken": "||",
              "ArrowToken": "->", "MinusMinusToken": "--", "AmpersandToken": "&", "TildeToken": "~", "PlusEqualsToken": "+=", "LessThanToken": "<",
              "LessThanLessThanToken": "<<", "AmpersandAmpersandToken": "&&", "SlashToken": "/", "EqualsEqualsToken": "==", "CaretToken": "^", "BarToken": "|",
              "PercentToken": "%", "LessThanEqualsToken": "<=", "ExclamationEqualsToken": "!="}
    XBIN = ["PlusToken", "AsteriskToken", "MinusToken", "EqualsToken", "CommaToken", "BarBarToken", "PlusEqualsToken", "LessThanToken", "LessThanLessThanToken",
            "AmpersandAmpersandToken", "SlashToken", "EqualsEqualsToken", "CaretToken", "BarToken", "PercentToken", "LessThanEqualsToken", "ExclamationEqualsToken", "AmpersandToken"]

    def gen_x(d):
        if d <= 0 or rng.random() < 0.25:
            return ["a"]
        k = rng.randrange(13)
        sub = lambda: gen_x(d - 1)
        if k <= 3: return sub() + [rng.choice(XBIN)] + sub()
        if k == 4: return sub() + ["QuestionToken"] + sub() + [":"] + sub()
        if k == 5: return [rng.choice(["ExclamationToken", "MinusToken", "PlusPlusToken", "AsteriskToken", "AmpersandToken", "TildeToken", "MinusMinusToken", "PlusToken"])] + sub()
        if k == 6: return sub() + [rng.choice(["PlusPlusToken", "MinusMinusToken"])]
        if k == 7: return ["(", "T", ")"] + sub()
        if k == 8: return sub() + ["OpenBracketToken"] + sub() + ["CloseBracketToken"]
        if k == 9: return sub() + [rng.choice(["DotToken", "ArrowToken"]), "a"]
        if k == 10:
            args = [sub() for _ in range(rng.randrange(0, 4))]
            return sub() + ["("] + [x for j, a_ in enumerate(args) for x in (["CommaToken"] if j else []) + a_] + [")"]
        if k == 11: return sub() + ["QuestionToken", ":"] + sub()
        return ["("] + sub() + [")"]

    def gen_body(d):
        x = lambda: gen_x(rng.choice([0, 1, 1, 2, 3]))
        k = rng.randrange(20) if d > 0 else rng.randrange(8)
        sub = lambda: gen_body(d - 1)
        if k == 0: return x() + [";"]
        if k == 1: return [";"]
        if k == 2: return ["d"]
        if k == 3: return ["goto", "L", ";"]
        if k == 4: return ["continue", ";"]
        if k == 5: return ["break", ";"]
        if k == 6: return ["return", ";"]
        if k == 7: return ["return"] + x() + [";"]
        if k == 8: return ["{"] + [t for _ in range(rng.randrange(0, 4)) for t in sub()] + ["}"]
        if k in (9, 10): return ["if", "("] + x() + [")"] + sub()
        if k in (11, 12): return ["if", "("] + x() + [")"] + sub() + ["else"] + sub()
        if k == 13: return ["switch", "("] + x() + [")"] + sub()
        if k == 14: return ["case"] + x() + [":"] + sub()
        if k == 15: return ["default", ":"] + sub()
        if k == 16: return ["L", ":"] + sub()
        if k == 17: return ["while", "("] + x() + [")"] + sub()
        if k == 18: return ["do"] + sub() + ["while", "("] + x() + [")", ";"]
        init = rng.choice([[";"], x() + [";"], ["d"]])
        return ["for", "("] + init + rng.choice([[], x()]) + [";"] + rng.choice([[], x()]) + [")"] + sub()
    BWORDS = list(XSPELL) + ["(", ")", ":", ";", "{", "}", "d", "L", "if", "else", "switch", "case", "default", "while", "do", "for", "goto", "continue", "break", "return"]
    bstrings = []
    for _ in range(4000 if ctx.quick else 60000):
        t = gen_body(rng.choice([1, 2, 2, 3]))
        if len(t) > 120:
            continue
        bstrings.append(t)
        m_ = list(t)
        for _ in range(rng.randrange(1, 3)):
            j = rng.randrange(len(m_) + 1)
            r_ = rng.random()
            if r_ < 0.35 and m_: del m_[min(j, len(m_) - 1)]
            elif r_ < 0.7: m_.insert(j, rng.choice(BWORDS))
            elif m_: m_[min(j, len(m_) - 1)] = rng.choice(BWORDS)
        if m_:
            bstrings.append(m_)
    XEND = ("a", "CloseBracketToken")
    bstrings = [t for t in bstrings
                # as in the two models' own stages: a label is `L`, a type name stands between parentheses, no `&&` prefix (label address)
                if not any(t[j] == "L" and not ((j + 1 < len(t) and t[j + 1] == ":" and not (j and t[j - 1] in ("goto", "case"))) or (j and t[j - 1] == "goto" and j + 1 < len(t) and t[j + 1] == ";")) for j in range(len(t)))
                and not any(t[j] == "T" and not (0 < j < len(t) - 1 and t[j - 1] == "(" and t[j + 1] == ")") for j in range(len(t)))
                and not any(t[j] == "AmpersandAmpersandToken" and (j == 0 or t[j - 1] not in XEND) for j in range(len(t)))
                # `( T )` directly after the `(` of a header or before `{` would be a parenthesised type name / compound literal
                and not any(t[j] == "T" and j + 2 < len(t) and t[j + 2] == "{" for j in range(len(t)))
                # a label stands where a statement begins (after `)` it might follow a cast: left out); `goto *e;` is GNU's computed goto
                and not any(t[j] == "L" and j + 1 < len(t) and t[j + 1] == ":" and j and t[j - 1] not in (";", "{", "}", "else", "do", ":", "d") for j in range(len(t)))
                and not any(t[j] == "goto" and not (j + 1 < len(t) and t[j + 1] == "L") for j in range(len(t)))]
    bstrings = [list(x) for x in dict.fromkeys(tuple(t) for t in bstrings)]

    def render_b(toks):
        out = []
        for j, w in enumerate(toks):
            if w == "a": out.append("m" if j and toks[j - 1] in ("DotToken", "ArrowToken") else rng.choice(["1", "2", "7"]))
            elif w == "d": out.append(rng.choice(SPELL_D))
            elif w == "L": out.append("L1")
            else: out.append(XSPELL.get(w) or w)
        return " ".join(out)
    btexts = [render_b(t) for t in bstrings]
    blines = ["2,1,0,2,%s s %s" % ("d" * 31, t.encode().hex()) for t in btexts]
    bimpl = stages.run_harness(ctx, "tree", blines)
    bmodel = leanb.model("body", "\n".join(" ".join(t) for t in bstrings) + "\n")

    def normx(e):
        if e[0] in ("IdentifierName", "IntegerConstantExpression"): return ("a",)
        if e[0] == "DeclarationStatement": return ("d",)
        return (e[0],) + tuple(normx(c) for c in e[1:])
    nb_ok = nb_fail = nb_dis = 0
    for t, txt, i, m, l in zip(bstrings, btexts, bimpl, bmodel, blines):
        if i.startswith(("CRASH", "HANG")):
            viol("crash:" + txt[:80], "parsing the statement %r: %s" % (txt, i[:200]), txt, l); continue
        try:
            ntok = int(i.split(" ;")[0]) - 2
        except ValueError:
            ntok = -1
        diags = ",".join(x for x in i.split(" | ")[-1].split(",") if not x.startswith(CTX_IDS)) or "-"
        full = re.search(r"N0 \w+ f1 l%d " % ntok, i) is not None
        got = dump_to_sexpr(i) if diags == "-" and full else None
        gs = sx(normx(got)) if got else "FAIL"
        ms = m if m == "FAIL" else m[2:]
        if ms == "FAIL" and gs != "FAIL" and any(x.startswith(CTX_IDS) for x in i.split(" | ")[-1].split(",")):
            # a placement diagnostic was reported: the parser's net for constructs it gave up on (Parser-103) only speaks when NOTHING was
            # diagnosed, so a syntax failure may hide behind it (tokens inside the root's extent that belong to no child): no verdict to compare
            continue
        if ms == "FAIL": nb_fail += 1
        else: nb_ok += 1
        if gs != ms:
            nb_dis += 1
            derivable = m.startswith("1 ")
            if nb_dis <= 4:
                ctx.report(("body:" if derivable else "body-corr:") + txt[:100],
                           "statement %r: the parser built %s, %s %s" % (txt, gs, "the grammar (statement model composed with the expression model, both proved to invert the grammar's printing) gives" if derivable else "the composed Lean models give", ms),
                           {"component": "tree", "case": l, "impl": gs, "model": ms, "tokens": " ".join(t)}, no_input=not derivable)
            if derivable:
                nviol += 1
    ctx.notes["statement_with_expressions_model"] = {"strings": len(bstrings), "parsed_by_both": nb_ok, "rejected_by_model": nb_fail, "disagreements": nb_dis}
    # --- (1) operator+ : complete translation validation
    impl_tab = stages.run_harness(ctx, "accept", ["ctxadd"])[0].strip()
    model_tab = leanb.model("stmtctx", "ctxadd\n")[0].strip()
    if impl_tab != model_tab:
        diffs = [a for a, b in zip(impl_tab.split(), model_tab.split()) if a != b]
        ctx.report("ctxadd", "Parser::StatementContext operator+ differs from the Lean model on %s (model: %s)" % (diffs, model_tab),
                   {"theorem": "PsycheModel.StmtCtx.diag_iff_invalid", "impl": impl_tab, "model": model_tab}, no_input=True)
    # --- (1b) guessRoleOfIdentifier: the real function vs the Lean model, exhaustively over short token strings
    ALPHA = {"i": "x", "t": "int", "s": "static", "q": "const", "f": "inline", "a": "_Alignas", "b": "__attribute__", "*": "*", "(": "(", ")": ")",
             "[": "[", "]": "]", ",": ",", ";": ";", "{": "{", "o": "3"}
    OTHERS = ["3", "=", "+", "}", ":", "...", "\"s\"", "->", "1.5", "'c'", "sizeof", "return", "?"]
    import itertools
    strings = ["-"]
    L = 3 if ctx.quick else 4
    for n in range(1, L + 1):
        strings += ["".join(t) for t in itertools.product(ALPHA, repeat=n)]
    # whole groups: '(' inner ')' tail and '[' inner ']' tail, inner exhaustive over the classes the scan distinguishes
    INNER = "i*()t,[]o;"
    inners = [""] + ["".join(t) for n in range(1, (3 if ctx.quick else 4) + 1) for t in itertools.product(INNER, repeat=n)]
    for inner in inners:
        for tail in ("", ";", "{", ",", "(", "i"):
            strings.append("(" + inner + ")" + tail)
            if rng.random() < 0.3:
                strings.append("[" + inner + "]" + tail)
    for _ in range(3000 if ctx.quick else 60000):
        strings.append("".join(rng.choice("it*()[],;{oq") for _ in range(rng.randrange(L + 1, 12))))
    glines, mlines = [], []
    for st in strings:
        for c in (0, 1, 2):
            for kr in (0, 1):
                if st != "-" and len(st) > 2 and (c, kr) not in ((0, 0), (2, 0), (0, 1)) and rng.random() < 0.6:
                    continue
                text = "T " + " ".join((rng.choice(OTHERS) if ch == "o" else ALPHA[ch]) for ch in st if st != "-")
                glines.append("guess %d %d %s" % (c, kr, text.encode().hex()))
                mlines.append("%d %d %s" % (c, kr, st))
    gimpl = stages.run_harness(ctx, "accept", glines)
    gmodel = leanb.model("guessrole", "\n".join(mlines) + "\n")
    ngd = 0
    for gl, ml, a, b in zip(glines, mlines, gimpl, gmodel):
        if a.strip() != b.strip():
            ngd += 1
            if ngd <= 3:
                ctx.report("guess:" + ml, "Parser::guessRoleOfIdentifier answers %s, the Lean model %s, for the token classes [%s] after the identifier (context, K&R flag, classes: %s)"
                           % (a, b, bytes.fromhex(gl.split()[3]).decode(), ml),
                           {"component": "accept", "case": gl, "theorem": "PsycheModel.DeclTokens.guess_safe"}, no_input=True)
    ctx.notes["guess_role_cases"] = len(glines)
    # --- (2) nestings
    nest = list(nestings(3))
    if not ctx.quick:
        nest += list(nestings(4, ["for", "switch", "if", "block", "do", "case", "elseonly"]))
    else:
        deep = list(nestings(4, ["for", "switch", "if", "block", "do", "case", "elseonly"]))
        nest += [n for n in deep if len(n[2]) == 5 and rng.random() < 0.25]
    nlines = [parse_line("c11", t) for t, _, _ in nest]
    nimpl = stages.run_harness(ctx, "accept", nlines)
    nmodel = leanb.model("stmtctx", "\n".join(e for _, e, _ in nest) + "\n")
    nvalid = 0
    for (text, enc, shape), line, o, m in zip(nest, nlines, nimpl, nmodel):
        mm = re.match(r"diag=(\d) valid=(\d)", m)
        if not mm:
            raise RuntimeError("stmtctx driver: %r for %r" % (m, enc))
        mdiag, valid = mm.group(1) == "1", mm.group(2) == "1"
        errs = o.split(" early=")[0]
        idiag = any(i in errs for i in CTX_IDS)
        other = [e for e in errs.split(",") if e != "-" and not e.startswith(CTX_IDS)]
        nvalid += valid
        if valid and (errs != "-" or "early=1" in o):
            viol("nest:" + " ".join(shape), "valid nesting %s rejected: %s\n%s" % (shape, o, text), text, line)
        elif idiag != mdiag:
            viol("nestcorr:" + " ".join(shape), "nesting %s: parser %s a placement diagnostic, the Lean model %s (C11: %s)\n%s"
                 % (shape, "reports" if idiag else "does not report", "does" if mdiag else "does not", "valid" if valid else "invalid", text), text, line)
        elif other and valid:
            viol("nestother:" + " ".join(shape), "nesting %s draws %s" % (shape, other), text, line)
    # --- (3) acceptance sweep over every generator, gcc as judge
    progs = []          # (family, std, text)
    n = 150 if ctx.quick else 3000
    for i in range(n):
        r = random.Random(rng.randrange(1 << 30))
        k = i % 6
        if k == 0:
            progs.append(("cgen", "c11", Gen(r, typed=True, gnu=False, maxdepth=3 + i % 3).program()))
        elif k == 1:
            progs.append(("declgen", "c11", DeclGen(r, maxdepth=3 + i % 5, parens=[0.0, 0.2, 0.4][i % 3]).program(nunits=3 + i % 6)[0]))
        elif k == 2:
            progs.append(("scopegen", "c11", ScopeGen(r, names=4, maxdepth=3, late=bool(i % 2), enums=True, size=20 + i % 40).program()))
        elif k == 3:
            progs.append(("typedefgen", "c11", TypedefGen(r, chain=3 + i % 8, size=15 + i % 30).program()))
        elif k == 4:
            progs.append(("cgen-kr", "c11", Gen(r, typed=True, gnu=False, kr=True, maxdepth=3).program()))
        else:
            progs.append(("cgen-c99", "c99", Gen(r, typed=True, gnu=False, maxdepth=3).program()))
    # GNU forms (attributes, asm, typeof, statement expressions, labels as values, case ranges ...) with gcc -std=gnu11 as the judge and the
    # parser's default extension switches
    for i in range(40 if ctx.quick else 800):
        progs.append(("cgen-gnu", "gnu11", Gen(random.Random(rng.randrange(1 << 30)), typed=True, gnu=True, kr=(i % 5 == 0), maxdepth=3 + i % 3).program()))
    amb = AmbigGen(random.Random(ctx.seed)).all_cases()
    for c in amb[:: (12 if ctx.quick else 1)]:
        progs.append(("ambiggen", "c11", c["text"]))
    T = [t for t in typed_tests() if not t[0].startswith(("bin", "asg"))]
    A = [t for t in T if not has_initializer(t[1])]
    for i in range(0, len(A), 300):
        progs.append(("typedgen", "c11", typed_program(A[i:i + 300], i)[0]))

    # enumerative declaration forms, one external declaration per line, judged line by line (like typedgen)
    from gen.declforms import corpus as declforms_corpus, program as declforms_program
    DF = declforms_corpus()
    if ctx.quick:
        DF = [x for i, x in enumerate(DF) if x[0] != "array-parameter" or i % 4 == ctx.seed % 4 or "[*]" in x[1][:60] and i % 2 == 0]
    for i in range(0, len(DF), 250):
        progs.append(("declforms", "c11", declforms_program(DF[i:i + 250], i)[0]))

    # every keyword that can BEGIN a block-scope declaration (6.7p1: storage class, type specifier, qualifier, function specifier, alignment
    # specifier; 6.7.10), as the first token of a statement and of the first clause of a `for`: one function per line, judged line by line
    BLOCKDECLS = ["typedef int T_;", "extern int e_;", "static int s_;", "auto int a_;", "register int r_;", "_Thread_local static int t_;", "static _Thread_local int t2_;",
                  "const int c_ = 1;", "volatile int v_;", "_Atomic int at_;", "_Atomic(int) at2_;", "_Noreturn void nr_(void);", "inline int in_(void);", "void *vp_;", "char ch_;", "short sh_;", "int i_;",
                  "long l_;", "signed si_;", "unsigned u_;", "float f_;", "double d_;", "_Bool b_;", "_Complex double cd_;", "double _Complex cd2_;", "struct S_ { int m; } s1_;",
                  "union U_ { int m; } u1_;", "enum E_ { A_ } e1_;", "_Alignas(8) int al_;", "_Alignas(double) char al2_[8];", "_Static_assert(1, \"ok\");", "int _Alignas(8) al3_;",
                  "static _Alignas(16) char al4_[16];", "_Alignas(int) _Alignas(8) int al5_;", "long long ll_; unsigned char uc_;", "struct S_ *ps_;", "enum E_ e2_;", "const char *const cc_ = 0;",
                  "int _Alignas(8) (*al6_)(int);", "_Alignas(8) int (al7_);", "int _Alignas(int) (al8_)[2];", "int _Alignas(8) (al9_);"]
    bd_lines = ["void bd%d(void) { %s }" % (j, d_) for j, d_ in enumerate(BLOCKDECLS)]
    bd_lines += ["void bf%d(void) { for (%s ; ) break; }" % (j, d_) for j, d_ in enumerate(x for x in BLOCKDECLS if "{" not in x and "typedef" not in x and "_Static_assert" not in x and "(void)" not in x)]
    bd_lines += ["void bl%d(int x) { if (x) { %s } else { L%d: ; %s } switch (x) { case 1: ; %s } }" % (j, d_, j, d_, d_) for j, d_ in enumerate(BLOCKDECLS[::3])]
    progs.append(("blockdecl", "c11", "\n".join(bd_lines) + "\n"))

    # the specifiers of a declaration in ANY order (6.7p1) around a tag DECLARATION (a body): every storage class, qualifier, function and
    # alignment specifier before and after the body, at file scope, in a block, in a member list and in a parameter list; one per line
    so_lines, n_ = [], 0
    TAGS_ = ["struct S%d { int m; }", "union S%d { int m; }", "enum S%d { K%d }", "struct { int m%d; }", "enum { K%d }", "struct S%d { struct { int a; } const i; }"]
    TRAIL_ = ["static", "extern", "typedef", "register", "auto", "_Thread_local static", "static _Thread_local", "const", "volatile", "const volatile", "_Alignas(8)", "_Atomic",
              "static const", "const static", "const _Alignas(16) volatile", "__attribute__((unused)) static", "static __attribute__((unused))", "extern const"]
    LEAD_ = ["", "const ", "static ", "_Alignas(8) "]
    for tg in TAGS_:
        for tr in TRAIL_:
            for ld in LEAD_:
                if ld.strip() and (ld.strip() in tr or ("static" in ld and any(k in tr for k in ("extern", "typedef", "register", "auto")))):
                    continue
                n_ += 1
                t_ = tg.replace("%d", str(n_))
                so_lines.append("%s%s %s so%d, *sp%d;" % (ld, t_, tr, n_, n_))
                n_ += 1
                t_ = tg.replace("%d", str(n_))
                so_lines.append("void sb%d(void) { %s%s %s so%d; }" % (n_, ld, t_, tr, n_))
        for tr in ("const", "volatile", "_Alignas(8)", "_Atomic", "const _Alignas(8)"):
            n_ += 1
            so_lines.append("struct O%d { %s %s x; int y; };" % (n_, tg.replace("%d", str(n_)), tr))
        for tr in ("static", "extern", "static inline", "inline static", "_Noreturn static", "extern inline"):
            n_ += 1
            so_lines.append("%s %s sf%d(void);" % (tg.replace("%d", str(n_)), tr, n_))
    # ... and in parameter lists, type names, member lists and compound literals
    so_lines += ["void sp_f1(struct P1 { int a; } const p);", "void sp_f2(enum E2 { A2 } register e);", "int sp_s1 = sizeof(struct Q1 { int a; } const);",
                 "int sp_s2 = sizeof(struct Q2 { int a; } const *);", "int sp_s3 = _Alignof(union Q3 { int a; } volatile [2]);",
                 "struct SO1 { struct SI1 { int a; } _Alignas(8) x; union { int b; } const y; enum { SZ1 } volatile z : 3; };",
                 "void sp_g(void) { int c = (struct C1 { int a; } const){ 1 }.a; }", "void sp_h(void) { for (struct F1 { int i; } const *q = 0; ; ) break; }"]
    progs.append(("specorder", "c11", "\n".join(so_lines) + "\n"))

    # compound literals whose type name starts with a typedef name or a keyword and carries every shape of abstract declarator, in every
    # operand position that reaches them by another route (operand of sizeof / ++ / & / cast / call argument / member access / bare)
    cl_types = ["T", "T *", "T [2]", "T (*)(int)", "T (*)[2]", "T (*(*)[2])(int)", "T (*)(T (*)(int))", "T * const", "const T *", "T (* const)(void)",
                "int", "int (*)(int)", "int (*)[2]", "struct S", "struct S *", "struct S (*)(int)", "unsigned char [4]", "PT", "PT (*)[3]"]
    cl_pos = ["(void) sizeof %s;", "(void) sizeof (%s);", "(void) %s;", "(void) &%s;", "(void) (%s, 0);", "sink(0, %s);", "(void) (0 ? 0 : sizeof %s);",
              "(void) (1 + sizeof %s);", "(void) _Alignof(T) ; (void) sizeof %s;", "(void) !sizeof %s;", "(void) (sizeof %s + sizeof %s);"]
    cl_lines = ["typedef int T;", "typedef char *PT;", "struct S { int m; };", "void sink(int, ...);"]
    for ti, ty in enumerate(cl_types):
        for pi, pos in enumerate(cl_pos):
            lit = "(%s){ 0 }" % ty
            cl_lines.append("void cl%d_%d(void) { %s }" % (ti, pi, pos.replace("%s", lit)))
    # every prefix operator on every kind of operand that starts with a parenthesis (casts by typedef name and by keyword, nested casts, casts of
    # prefix expressions, parenthesised expressions, compound literals): 6.5.3p1 / 6.5.4 - gcc filters the ill-typed combinations line by line
    un_ops = ["!", "~", "-", "+", "*", "&", "++", "--", "sizeof ", "- -", "! !", "~ -", "* &", "& *", "(void) ", "(T) ", "(int) "]
    un_operands = ["(int) x", "(T) x", "(T *) p", "(int *) p", "(int) sizeof x", "(T) (x)", "(T) -x", "(T) !x", "(T) ~x", "(int) (T) x", "(T) (int) x", "(x)", "(*p)", "(T){ 0 }",
                   "(T *){ p }", "(T) x + 1", "(T) x * (T) x", "(T *) p + 1", "*(T *) p", "&*(T *) p", "(T) sizeof (T)", "(T) _Alignof(T)", "(p)[0]", "(T) p[0]", "(T) x++"]
    for oi, op_ in enumerate(un_ops):
        for ai, a_ in enumerate(un_operands):
            cl_lines.append("void un%d_%d(int x, int *p) { (void) (%s%s); }" % (oi, ai, op_, a_))
            cl_lines.append("int uv%d_%d(int x, int *p) { return 0 + %s%s ? 1 : 0; }" % (oi, ai, op_, a_))
    progs.append(("complit", "c11", "\n".join(cl_lines) + "\n"))

    def gcc_ok(p):
        fam, std, text = p
        # c11: plain acceptance; older dialects: pedantic errors ON (no -w), so that C11-only keywords are not let through as extensions
        flags = ["-w"] if std in ("c11", "gnu11") else ["-pedantic-errors", "-Wno-unused", "-Wno-overflow"]
        rc, _, err = sh(["gcc", "-std=" + GCCSTD[std], "-fsyntax-only"] + flags + ["-x", "c", "-"], input=text)
        return rc == 0, err
    with concurrent.futures.ThreadPoolExecutor(16) as ex:
        oks = list(ex.map(gcc_ok, progs))
    rej_gcc = collections.Counter(f for (f, _, _), (ok, _) in zip(progs, oks) if not ok)
    good = [p for p, (ok, _) in zip(progs, oks) if ok]
    # typedgen: gcc rejects single lines on purpose; keep the lines it accepts
    for p, (ok, err) in zip(progs, oks):
        if not ok and p[0] in ("typedgen", "declforms", "blockdecl", "specorder", "complit"):
            bad = set(int(m.group(1)) for m in re.finditer(r"<stdin>:(\d+):\d+: error", err))
            keep = [l for i, l in enumerate(p[2].split("\n"), 1) if i not in bad]
            good.append((p[0], p[1], "\n".join(keep) + "\n"))
    lines, meta = [], []
    for fam, std, text in good:
        stds = [std] if std != "c11" else ["c11", "c17"]
        for s in stds:
            lines.append(parse_line(s, text))
            meta.append((fam, s, text, "as-is"))
        if fam == "declgen":
            # the declarations that give T, PT, struct S … their meaning removed from view: still syntactically C
            lines.append(parse_line("c11", text.replace(DECL_PRELUDE, "")))
            meta.append((fam, "c11", text.replace(DECL_PRELUDE, ""), "declarations-removed"))
        if fam in ("typedefgen", "complit"):
            stripped = "\n".join(l for l in text.split("\n") if not l.strip().startswith("typedef ")) + "\n"
            lines.append(parse_line("c11", stripped))
            meta.append((fam, "c11", stripped, "declarations-removed"))
    ans = stages.run_harness(ctx, "accept", lines)
    fams = collections.Counter()
    for (fam, std, text, how), line, o in zip(meta, lines, ans):
        fams["%s/%s/%s" % (fam, std, how)] += 1
        if o.startswith(("CRASH", "HANG", "exception", "bad")):
            viol("crash:%s:%s" % (fam, text[:60]), "parsing a valid %s program (%s, %s) did not complete: %s\n%s" % (fam, std, how, o[:300], text[:1500]), text, line)
            continue
        errs, _, rest = o.partition(" early=")
        if errs != "-" or rest.startswith("1"):
            # shrink to the first offending line's declaration/function where possible
            m = re.search(r"@(\d+)", errs)
            where = text.split("\n")[int(m.group(1)) - 1] if m and 0 < int(m.group(1)) <= len(text.split("\n")) else ""
            viol("reject:%s:%s" % (fam, (where or text)[:80]), "a program gcc accepts (%s, -std=%s, %s) draws %s%s; offending line: %r\n%s"
                 % (fam, std, how, errs, " and the parser stopped early" if rest.startswith("1") else "", where, text[:2500]), text, line)
    # --- (4) the recorded blind spots (valid C the parser rejects): printed as known findings while they reproduce
    blines = [parse_line("c11", t) for _, t, _ in BLIND]
    for (key, text, what), line, o in zip(BLIND, blines, stages.run_harness(ctx, "accept", blines)):
        if not o.startswith("- early=0"):
            w = what or next(w for k, _, w in BLIND if k == key and w)
            ctx.report("blind:" + key, "%s; e.g. %r -> %s" % (w, text, o), {})
    ctx.cov.update({
        "evaluations": len(nest) + len(lines) + 16, "traces_validated_against_impl": len(nest) + 16, "distinct_nontrivial": nvalid + len(lines), "exhaustive": False,
        "rule": "guessRoleOfIdentifier: the real function vs the model on every string of up to 3 (thorough 4) of 16 token classes x 3 contexts x K&R flag + random longer ones; operator+ on all 16 context pairs (complete); every nesting of 11 wrappers x 5 leaves to depth 3 (7,320; thorough + depth 4 over 7 wrappers, quick a 25% sample of it); acceptance: generated programs from cgen (C11, K&R, C99), declgen, scopegen, typedefgen, ambiggen, typedgen that gcc -fsyntax-only accepts under the matching -std, parsed under c11+c17 (or c99), plus the declgen/typedefgen programs with their typedef/tag declarations removed",
        "samples": [nest[100][0], good[0][2][:300], good[-1][2][:300]],
    })
    ctx.notes.update({"nestings": len(nest), "valid_nestings": nvalid, "programs_parsed": len(lines), "families": dict(fams), "rejected_by_gcc_and_dropped": dict(rej_gcc), "violations": nviol})
    ctx.assumptions += ["gcc 12 -fsyntax-only (with -pedantic-errors for c99) is the judge of validity; programs it rejects are dropped and counted",
                        "GNU programs are judged by gcc -std=gnu11 and parsed with the default extension switches",
                        "the generators avoid the recorded blind spots of symbol-table-free parsing (see BLIND), which are replayed separately as known findings"]
    if not proved:
        stages.lean_unproved(ctx, "C04", "PsycheModel.Props.C04")


def replay(ctx, rec):
    stages.cxx_stage(ctx, "ndebug")
    l = rec["replay"]["case"]
    print("text:\n" + bytes.fromhex(l.split()[2]).decode("latin-1")[:3000])
    print("parser:", stages.run_harness(ctx, "accept", [l])[0])
    ctx.cov.update({"evaluations": 1, "samples": [l[:200]]})
    return ctx.finish()
