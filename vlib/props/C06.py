"""C06 — Expression trees respect C operator precedence and associativity.

Proof: lean/PsycheModel/Props/C06.lean — climbing theorem for any table + kernel-checked obligations on the tables
REGENERATED from Parser_Expressions.cpp / SyntaxFacts.h.  Tie: (T) translators/facts.py; (H) the climbing model <->
the real parser on all operator pairs and triples.  Oracle: expression trees generated over ALL operators (binary,
assignment, conditional, comma, unary, postfix, cast, sizeof/_Alignof, call, subscript, member), printed with
minimal / full / redundant parentheses; the parsed tree must be the generated tree."""
import itertools, re
from .. import stages, leanb

BIN = {  # spelling -> (token kind, level, right-assoc, node kind)
    ",": ("CommaToken", 1, False, "SequencingExpression"),
    "=": ("EqualsToken", 2, True, "BasicAssignmentExpression"), "*=": ("AsteriskEqualsToken", 2, True, "MultiplyAssignmentExpression"),
    "/=": ("SlashEqualsToken", 2, True, "DivideAssignmentExpression"), "%=": ("PercentEqualsToken", 2, True, "ModuloAssignmentExpression"),
    "+=": ("PlusEqualsToken", 2, True, "AddAssignmentExpression"), "-=": ("MinusEqualsToken", 2, True, "SubtractAssignmentExpression"),
    "<<=": ("LessThanLessThanEqualsToken", 2, True, "LeftShiftAssignmentExpression"), ">>=": ("GreaterThanGreaterThanEqualsToken", 2, True, "RightShiftAssignmentExpression"),
    "&=": ("AmpersandEqualsToken", 2, True, "AndAssignmentExpression"), "^=": ("CaretEqualsToken", 2, True, "ExclusiveOrAssignmentExpression"),
    "|=": ("BarEqualsToken", 2, True, "OrAssignmentExpression"),
    "||": ("BarBarToken", 4, False, "LogicalORExpression"), "&&": ("AmpersandAmpersandToken", 5, False, "LogicalANDExpression"),
    "|": ("BarToken", 6, False, "BitwiseORExpression"), "^": ("CaretToken", 7, False, "BitwiseXORExpression"), "&": ("AmpersandToken", 8, False, "BitwiseANDExpression"),
    "==": ("EqualsEqualsToken", 9, False, "EqualsExpression"), "!=": ("ExclamationEqualsToken", 9, False, "NotEqualsExpression"),
    "<": ("LessThanToken", 10, False, "LessThanExpression"), ">": ("GreaterThanToken", 10, False, "GreaterThanExpression"),
    "<=": ("LessThanEqualsToken", 10, False, "LessThanOrEqualExpression"), ">=": ("GreaterThanEqualsToken", 10, False, "GreaterThanOrEqualExpression"),
    "<<": ("LessThanLessThanToken", 11, False, "LeftShiftExpression"), ">>": ("GreaterThanGreaterThanToken", 11, False, "RightShiftExpression"),
    "+": ("PlusToken", 12, False, "AddExpression"), "-": ("MinusToken", 12, False, "SubstractExpression"),
    "*": ("AsteriskToken", 13, False, "MultiplyExpression"), "/": ("SlashToken", 13, False, "DivideExpression"), "%": ("PercentToken", 13, False, "ModuleExpression"),
}
PREFIX = {"++": "PreIncrementExpression", "--": "PreDecrementExpression", "&": "AddressOfExpression", "*": "PointerIndirectionExpression",
          "+": "UnaryPlusExpression", "-": "UnaryMinusExpression", "~": "BitwiseNotExpression", "!": "LogicalNotExpression"}
LV_COND, LV_CAST, LV_UNARY, LV_POSTFIX, LV_PRIMARY = 3, 14, 15, 16, 17
OPTS = "2,1,0,2," + "d" * 31


# ---- expression trees: ("id", name) ("const", text) ("bin", op, l, r) ("cond", c, t, f) ("pre", op, e) ("post", op, e)
#      ("cast", type, e) ("sizeof", e) ("call", f, [args]) ("index", a, i) ("member", op, e, name) ("paren", e)
def level(t):
    k = t[0]
    if k == "bin": return BIN[t[1]][1]
    if k == "cond": return LV_COND
    if k == "cast": return LV_CAST
    if k in ("pre", "sizeof"): return LV_UNARY
    if k in ("post", "call", "index", "member"): return LV_POSTFIX
    return LV_PRIMARY


def gen_tree(rng, d):
    if d <= 0 or rng.random() < 0.15:
        return rng.choice([("id", rng.choice("abcxyz")), ("const", rng.choice(["1", "42", "0x1F", "'c'", "2.5"]))])
    k = rng.randrange(20)
    if k <= 8:
        return ("bin", rng.choice(list(BIN)), gen_tree(rng, d - 1), gen_tree(rng, d - 1))
    if k <= 10:
        return ("cond", gen_tree(rng, d - 1), gen_tree(rng, d - 1), gen_tree(rng, d - 1))
    if k <= 12:
        return ("pre", rng.choice(list(PREFIX)), gen_tree(rng, d - 1))
    if k == 13:
        return ("post", rng.choice(["++", "--"]), gen_tree(rng, d - 1))
    if k == 14:
        return ("cast", rng.choice(["int", "char", "unsigned long", "double", "int *"]), gen_tree(rng, d - 1))
    if k == 15:
        return ("sizeof", gen_tree(rng, d - 1))
    if k == 16:
        return ("call", gen_tree(rng, d - 1), [gen_tree(rng, d - 1) for _ in range(rng.randrange(0, 3))])
    if k == 17:
        return ("index", gen_tree(rng, d - 1), gen_tree(rng, d - 1))
    if k == 18:
        return ("member", rng.choice([".", "->"]), gen_tree(rng, d - 1), rng.choice("mn"))
    inner = gen_tree(rng, d - 1)
    return ("paren", inner) if inner[0] != "id" else inner


def show(t, style, rng, need=0):
    """returns (text, expected tree) — parentheses printed become ParenthesizedExpression nodes of the expected tree"""
    def sub(c, lv):
        txt, exp = show(c, style, rng, lv)
        return txt, exp

    def wrap(txt, exp, force):
        return ("(%s)" % txt, ("ParenthesizedExpression", exp)) if force else (txt, exp)
    k = t[0]
    if k == "id": txt, exp = t[1], ("IdentifierName",)
    elif k == "const":
        kind = "CharacterConstantExpression" if t[1][0] == "'" else "FloatingConstantExpression" if "." in t[1] else "IntegerConstantExpression"
        txt, exp = t[1], (kind,)
    elif k == "paren":
        a, ea = sub(t[1], 0); txt, exp = "(%s)" % a, ("ParenthesizedExpression", ea)
    elif k == "bin":
        tok, lv, ra, node = BIN[t[1]]
        if lv == 2:                      # 6.5.16: unary-expression on the left
            a, ea = sub(t[2], LV_UNARY); b, eb = sub(t[3], 2)
        else:
            a, ea = sub(t[2], lv + 1 if ra else lv); b, eb = sub(t[3], lv if ra else lv + 1)
        txt, exp = "%s %s %s" % (a, t[1], b), (node, ea, eb)
    elif k == "cond":
        a, ea = sub(t[1], 4); b, eb = sub(t[2], 0); c, ec = sub(t[3], LV_COND)
        txt, exp = "%s ? %s : %s" % (a, b, c), ("ConditionalExpression", ea, eb, ec)
    elif k == "pre":
        a, ea = sub(t[2], LV_UNARY if t[1] in ("++", "--") else LV_CAST)
        sep = " " if (t[1] in "+-&" and a[:1] == t[1][:1]) or (t[1] in ("++", "--") and a[:1] in "+-") else ""
        txt, exp = t[1] + sep + a, (PREFIX[t[1]], ea)
    elif k == "post":
        a, ea = sub(t[2], LV_POSTFIX); txt, exp = a + t[1], ("PostIncrementExpression" if t[1] == "++" else "PostDecrementExpression", ea)
    elif k == "cast":
        a, ea = sub(t[2], LV_CAST); txt, exp = "(%s)%s" % (t[1], a), ("CastExpression", ("TypeName",), ea)
    elif k == "sizeof":
        a, ea = sub(t[1], LV_UNARY)
        # `sizeof (x)…` would be read as sizeof applied to a parenthesised type/expression first: keep the operand unambiguous
        txt, exp = "sizeof " + a, ("SizeofExpression", ("ExpressionAsTypeReference", ea))
    elif k == "call":
        f, ef = sub(t[1], LV_POSTFIX)
        args = [sub(x, 2) for x in t[2]]
        txt, exp = "%s(%s)" % (f, ", ".join(x for x, _ in args)), ("CallExpression", ef) + tuple(e for _, e in args)
    elif k == "index":
        a, ea = sub(t[1], LV_POSTFIX); i, ei = sub(t[2], 0); txt, exp = "%s[%s]" % (a, i), ("ElementAccessExpression", ea, ei)
    elif k == "member":
        a, ea = sub(t[2], LV_POSTFIX)
        if t[2][0] == "const":
            a += " "                      # `42.n` / `0x1F.m` would lex as one (floating / pp-number) constant
        txt, exp = "%s%s%s" % (a, t[1], t[3]), ("DirectMemberAccessExpression" if t[1] == "." else "IndirectMemberAccessExpression", ea, ("IdentifierName",))
    force = level(t) < need
    if style == "full" and k not in ("id", "const", "paren"):
        force = True
    # a parenthesised lone identifier in front of an operand is the cast ambiguity of C09: not generated here
    if style == "redundant" and k != "id" and rng.random() < 0.3:
        txt, exp = wrap(txt, exp, True)
    return wrap(txt, exp, force)


def typename_like_paren(txt):
    """True when the text holds `( identifier suffix* )` followed by + - * & with every suffix a balanced [...] or (...) group: by the
    grammar the parenthesised part is also a type-name (typedef name + abstract declarator), i.e. the cast/binary ambiguity of C09,
    which the parser decides without a symbol table - not a precedence question"""
    for m in re.finditer(r"\(\s*[A-Za-z_]\w*\s*", txt):
        i = m.end()
        ok = True
        while i < len(txt) and txt[i] in "[(":
            close = "]" if txt[i] == "[" else ")"
            depth, j = 0, i
            while j < len(txt):
                if txt[j] in "[(": depth += 1
                elif txt[j] in "])":
                    depth -= 1
                    if depth == 0: break
                j += 1
            if j >= len(txt) or txt[j] != close:
                ok = False
                break
            i = j + 1
            while i < len(txt) and txt[i] == " ": i += 1
        if ok and i < len(txt) and txt[i] == ")" and re.match(r"\s*(?:[-+*&])", txt[i + 1:]):
            return True
    return False


def dump_to_sexpr(dump):
    recs = {}
    for r in dump.split(" | ")[0].split(" ; ")[1:]:
        w = r.split()
        if w[0].startswith("N"):
            recs[int(w[0][1:])] = (w[1], w[w.index(":") + 1:])

    def build(i):
        kind, hs = recs[i]
        if kind == "TypeName":
            return ("TypeName",)
        kids = []
        for h in re.findall(r"n\d+|L\([^)]*\)", " ".join(hs)):
            if h.startswith("n"):
                kids.append(build(int(h[1:])))
            else:
                for e in re.findall(r"(\d+),\d+", h):
                    kids.append(build(int(e)))
        return (kind,) + tuple(kids)
    return build(0) if 0 in recs else None


def pratt(ops):
    """C11 grouping of `a o1 a o2 a …` from the table above (independent of the front end); None = not derivable"""
    pos = [0]

    def expr(minlv):
        left = ("a",)
        while pos[0] < len(ops):
            tok, lv, ra, node = BIN[ops[pos[0]]]
            if lv < minlv:
                break
            if lv == 2 and left != ("a",):
                raise ValueError("assignment to a non-unary expression")
            pos[0] += 1
            right = expr(lv if ra else lv + 1)
            left = (node, left, right)
        return left
    try:
        e = expr(1)
    except ValueError:
        return None
    return e if pos[0] == len(ops) else None


def sx(t):
    return t[0] if len(t) == 1 else "(%s %s)" % (t[0], " ".join(sx(c) for c in t[1:]))


def run(ctx):
    proved = stages.lean_stage(ctx, "PsycheModel.Props.C06")
    stages.cxx_stage(ctx, "ndebug")
    rng = ctx.rng
    nviol = ncorr = 0
    # ---- 1. climbing model <-> real parser: all operator pairs and triples (binary, assignment, comma)
    ops = list(BIN)
    seqs = [[o] for o in ops] + [list(p) for p in itertools.product(ops, repeat=2)]
    triples = list(itertools.product(ops, repeat=3))
    seqs += [list(p) for p in (triples if not ctx.quick else rng.sample(triples, 6000))]
    texts = [" ".join(["a"] + [x for o in s for x in (o, "a")]) for s in seqs]
    lines = ["%s e %s" % (OPTS, t.encode().hex()) for t in texts]
    impl = stages.run_harness(ctx, "tree", lines)
    model = leanb.model("climb", "\n".join(" ".join(["a"] + [x for o in s for x in (BIN[o][0], "a")]) for s in seqs) + "\n")
    for s, t, i, m in zip(seqs, texts, impl, model):
        if i.startswith(("CRASH", "HANG")):
            ctx.report("crash:" + t, "parsing %r: %s" % (t, i[:200]), {"component": "tree", "case": "%s e %s" % (OPTS, t.encode().hex())}); nviol += 1; continue
        diags = i.split(" | ")[-1]
        got = dump_to_sexpr(i) if diags == "-" and int(i.split(" ;")[0]) == 2 * len(s) + 3 else None

        def norm(e):
            return ("a",) if e[0] in ("IdentifierName",) else (e[0],) + tuple(norm(c) for c in e[1:])
        gs = sx(norm(got)) if got else "FAIL"
        # full consumption: the root must span all tokens
        if got and not re.search(r"N0 \w+ f1 l%d " % (2 * len(s) + 1), i):
            gs = "FAIL"
        want = pratt(s)
        if want is not None and gs != sx(want):
            if nviol < 4:
                ctx.report("expr:" + t, "expression %r: the parser built %s, C11 6.5 groups it as %s" % (t, gs, sx(want)),
                           {"component": "tree", "case": "%s e %s" % (OPTS, t.encode().hex()), "impl": gs, "expected": sx(want)})
            nviol += 1
        elif gs != m:
            if ncorr + nviol < 4:
                derivable = m != "FAIL"
                ctx.report(("expr:" if derivable else "corr:") + t, "expression %r: the parser built %s, the C grammar (Lean model, proved equal to it) gives %s" % (t, gs, m),
                           {"component": "tree", "case": "%s e %s" % (OPTS, t.encode().hex()), "impl": gs, "model": m}, no_input=not derivable)
            if m != "FAIL": nviol += 1
            else: ncorr += 1
    # ---- 1b. ALL-LAYERS model (Expr.lean; theorem expr_parse_pp) <-> real parser: token strings over operands, N-ary / prefix / postfix
    # operators, `? :`, parentheses, brackets, member access, casts: every string of up to 3 (thorough 4) of 17 tokens, printed derivable
    # trees and their token mutations.  Operands are constants (no parenthesised identifier: that is C09's cast ambiguity), member names
    # identifiers, the type name `int`.
    ALPHA = {"a": None, "T": "int", "PlusToken": "+", "AsteriskToken": "*", "MinusToken": "-", "EqualsToken": "=", "CommaToken": ",", "QuestionToken": "?",
             "ColonToken": ":", "OpenParenToken": "(", "CloseParenToken": ")", "OpenBracketToken": "[", "CloseBracketToken": "]", "DotToken": ".",
             "PlusPlusToken": "++", "ExclamationToken": "!", "BarBarToken": "||"}
    MORE = {"ArrowToken": "->", "MinusMinusToken": "--", "AmpersandToken": "&", "TildeToken": "~", "PlusEqualsToken": "+=", "LessThanToken": "<",
            "LessThanLessThanToken": "<<", "AmpersandAmpersandToken": "&&", "SlashToken": "/", "EqualsEqualsToken": "==", "CaretToken": "^", "BarToken": "|",
            "GreaterThanGreaterThanEqualsToken": ">>=", "PercentToken": "%", "LessThanEqualsToken": "<=", "ExclamationEqualsToken": "!="}
    SPELL = dict(ALPHA); SPELL.update(MORE)

    def render(toks):
        out = []
        for j, t in enumerate(toks):
            if t == "a":
                out.append("m" if j and toks[j - 1] in ("DotToken", "ArrowToken") else "1")
            else:
                out.append(SPELL[t])
        return " ".join(out)

    def gen_model_tree(d):
        """token list of a random derivable-or-not tree over the model's node kinds (printed with few parentheses: both derivable and not)"""
        if d <= 0 or rng.random() < 0.2:
            return ["a"]
        k = rng.randrange(14)
        sub = lambda: gen_model_tree(d - 1)
        if k <= 3: return sub() + [rng.choice([x for x in SPELL if x in BINTOK])] + sub()
        if k == 4: return sub() + ["QuestionToken"] + sub() + ["ColonToken"] + sub()
        if k == 5: return [rng.choice(["ExclamationToken", "MinusToken", "PlusPlusToken", "AsteriskToken", "AmpersandToken", "TildeToken", "MinusMinusToken", "PlusToken"])] + sub()
        if k == 6: return sub() + [rng.choice(["PlusPlusToken", "MinusMinusToken"])]
        if k == 7: return ["OpenParenToken", "T", "CloseParenToken"] + sub()
        if k == 8: return sub() + ["OpenBracketToken"] + sub() + ["CloseBracketToken"]
        if k == 9: return sub() + [rng.choice(["DotToken", "ArrowToken"]), "a"]
        if k == 10:
            args = [sub() for _ in range(rng.randrange(0, 4))]
            return sub() + ["OpenParenToken"] + [x for j, a in enumerate(args) for x in (["CommaToken"] if j else []) + a] + ["CloseParenToken"]
        if k == 11: return sub() + ["QuestionToken", "ColonToken"] + sub()
        return ["OpenParenToken"] + sub() + ["CloseParenToken"]
    BINTOK = {v[0] for v in BIN.values()}
    strings = []
    alpha = list(ALPHA)
    for n_ in (1, 2, 3) if ctx.quick else (1, 2, 3, 4):
        strings += [list(p_) for p_ in itertools.product(alpha, repeat=n_)]
    allsym = list(SPELL)
    for _ in range(4000 if ctx.quick else 60000):
        t = gen_model_tree(rng.choice([1, 2, 2, 3, 3, 4]))
        if len(t) > 40:
            continue
        strings.append(t)
        m_ = list(t)
        for _ in range(rng.randrange(1, 3)):
            j = rng.randrange(len(m_) + 1)
            r_ = rng.random()
            if r_ < 0.35 and m_: del m_[min(j, len(m_) - 1)]
            elif r_ < 0.7: m_.insert(j, rng.choice(allsym))
            elif m_: m_[min(j, len(m_) - 1)] = rng.choice(allsym)
        if m_:
            strings.append(m_)
    # `&&` as a PREFIX operator (GNU label address) takes a label identifier since the parser was repaired (it took any cast-expression); an operand
    # of the model is rendered as a constant, so `&&` is kept only where it is certainly the binary operator: directly after an operand or `]`
    # (after `)` it may follow a cast, after `++` / `--` a prefix operator)
    strings = [t for t in strings if not any(t[j] == "AmpersandAmpersandToken" and (j == 0 or t[j - 1] not in ("a", "CloseBracketToken")) for j in range(len(t)))]
    # a type name is ONE token of the model (`T`), modelled where it stands between parentheses: `( int int )`, `( int * )`, `int + 1` are outside the model
    strings = [t for t in strings if not any(t[j] == 'T' and not (0 < j < len(t) - 1 and t[j - 1] == 'OpenParenToken' and t[j + 1] == 'CloseParenToken') for j in range(len(t)))]
    texts_b = [render(t) for t in strings]
    lines_b = ["%s e %s" % (OPTS, t.encode().hex()) for t in texts_b]
    impl_b = stages.run_harness(ctx, "tree", lines_b)
    model_b = leanb.model("expr", "\n".join(" ".join(t) for t in strings) + "\n")
    nb_ok = nb_fail = nb_notok = 0
    notok_samples = []
    for t, txt, i, m, l in zip(strings, texts_b, impl_b, model_b, lines_b):
        if i.startswith(("CRASH", "HANG")):
            ctx.report("crash:" + txt[:80], "parsing %r: %s" % (txt, i[:200]), {"component": "tree", "case": l}); nviol += 1; continue
        diags = i.split(" | ")[-1]
        full = re.search(r"N0 \w+ f1 l%d " % len(t), i) is not None
        got = dump_to_sexpr(i) if diags == "-" and full else None

        def normb(e):
            if e[0] in ("IdentifierName", "IntegerConstantExpression"): return ("a",)
            return (e[0],) + tuple(normb(c) for c in e[1:])
        gs = sx(normb(got)) if got else "FAIL"
        if m == "UNMODELLED":
            continue
        ms = m if m == "FAIL" else m[2:]
        if m != "FAIL":
            nb_ok += 1
            nb_notok += m[0] == "0"
            if m[0] == "0" and len(notok_samples) < 12: notok_samples.append(txt)
        else:
            nb_fail += 1
        if gs != ms:
            derivable = m.startswith("1 ")
            if ncorr + nviol < 6:
                ctx.report(("expr:" if derivable else "corr:") + txt[:100],
                           "expression %r: the parser built %s, %s %s" % (txt, gs, "the C grammar (Lean model of the parser, proved to invert the grammar's printing) gives" if derivable
                                                                        else "the Lean model of the parser gives", ms),
                           {"component": "tree", "case": l, "impl": gs, "model": ms, "tokens": " ".join(t)}, no_input=not derivable)
            if derivable: nviol += 1
            else: ncorr += 1
    ctx.notes["all_layers_model"] = ({"strings": len(strings), "parsed_by_both": nb_ok, "rejected_by_model": nb_fail, "parsed_but_not_derivable(ok=0)": nb_notok, "not_derivable_samples": notok_samples})
    # ---- 2. round trip over all operators
    n = 3000 if ctx.quick else 60000
    cases = []
    for j in range(n):
        t = gen_tree(rng, rng.choice([1, 2, 2, 3, 3, 4]))
        style = ("minimal", "full", "redundant")[j % 3]
        txt, exp = show(t, style, rng)
        if re.search(r"\)\s*\(", txt) or re.search(r"\(\s*[A-Za-z_]\w*[\s\w\[\]()*']*\)\s*[-+*&]", txt) or typename_like_paren(txt):
            continue          # `(…)(…)` / `(id…) - x`: call or cast, binary or cast - ambiguity forms (C09), not precedence questions
        cases.append((txt, exp, style))
    lines2 = ["%s e %s" % (OPTS, c[0].encode().hex()) for c in cases]
    impl2 = stages.run_harness(ctx, "tree", lines2)
    shapes = set()
    for (txt, exp, style), i, l in zip(cases, impl2, lines2):
        if i.startswith(("CRASH", "HANG")):
            ctx.report("crash:" + txt[:80], "parsing %r: %s" % (txt, i[:200]), {"component": "tree", "case": l}); nviol += 1; continue
        got = dump_to_sexpr(i)
        diags = i.split(" | ")[-1]
        shapes.add(sx(exp))
        if diags != "-" or got is None or sx(got) != sx(exp):
            if nviol < 4:
                ctx.report("roundtrip:" + txt[:100], "expression %r (%s parentheses): expected %s, parsed %s%s" % (txt, style, sx(exp), sx(got) if got else "nothing", "" if diags == "-" else " with diagnostics " + diags),
                           {"component": "tree", "case": l, "expected": sx(exp)})
            nviol += 1
    # ---- 3. precedence AFTER disambiguation: `[e o0 | prefix] (a) o1 b o2 c o3 d` in a unit where `a` is a variable (binary reading) or a
    # typedef name (cast reading): the parser shapes the ambiguity around ONE cast-expression operand; the delivered tree must still be C's.
    # (`(a) - b * c` was delivered as `((a) - b) * c`, `e * (a) - b` as `e * ((a) - b)`, `- (a) - b` as `-((a) - b)`: repaired.)
    def climb(ops, operands):
        pos = [0]

        def expr(minlv):
            left = operands[pos[0]]
            while pos[0] < len(ops):
                tok, lv, ra, node = BIN[ops[pos[0]]]
                if lv < minlv:
                    break
                pos[0] += 1
                right = expr(lv if ra else lv + 1)
                left = (node, left, right)
            return left
        e = expr(1)
        return e if pos[0] == len(ops) else None
    amb_ops = [o for o in BIN if BIN[o][1] > 2]
    UN = {"-": "UnaryMinusExpression", "+": "UnaryPlusExpression", "*": "PointerIndirectionExpression", "&": "AddressOfExpression", "&&": "ExtGNU_LabelAddress",
          "!": "LogicalNotExpression", "~": "BitwiseNotExpression"}
    A = ("a",)
    cases3 = []

    def add(prefix_txt, pre_ops, pre_operands, wrap, o1, tail_ops):
        """prefix_txt: text before `(a)`; pre_ops/pre_operands: binary context before; wrap: prefix operators / cast applied to the `(a)` operand"""
        expr = prefix_txt + " ".join(["(a)"] + [x for o, v in zip([o1] + tail_ops, "bcd") for x in (o, v)])
        for is_type in (False, True):
            unit = "%s int b, c, d, e; void f(void) { %s; }" % ("typedef int a;" if is_type else "int a;", expr)
            if is_type:
                operand = ("CASTNODE", (UN[o1], A))
                for w in reversed(wrap):
                    operand = (w, operand)
                want = climb(pre_ops + tail_ops, pre_operands + [operand] + [A] * len(tail_ops))
            else:
                operand = A
                for w in reversed(wrap):
                    operand = (w, operand)
                want = climb(pre_ops + [o1] + tail_ops, pre_operands + [operand] + [A] * (1 + len(tail_ops)))
            cases3.append((unit, expr, is_type, want))
    for o1 in ("-", "+", "*", "&", "&&"):
        for o2 in amb_ops:
            add("", [], [], [], o1, [o2])
            for o3 in (amb_ops if not ctx.quick else rng.sample(amb_ops, 6)):
                add("", [], [], [], o1, [o2, o3])
        add("", [], [], [], o1, [])
        for o0 in amb_ops:
            add("e %s " % o0, [o0], [A], [], o1, [])
            for o2 in (amb_ops if not ctx.quick else rng.sample(amb_ops, 5)):
                add("e %s " % o0, [o0], [A], [], o1, [o2])
        for u in ("-", "!", "~", "*", "&", "+"):
            for tail in ([], ["*"], ["=="], ["+"]):
                add(u + " ", [], [], [UN[u]], o1, tail)
                add("e * %s " % u, ["*"], [A], [UN[u]], o1, tail)
        for tail in ([], ["*"], ["<"]):
            add("(int) ", [], [], ["CASTNODE"], o1, tail)
            add("! (int) ", [], [], ["LogicalNotExpression", "CASTNODE"], o1, tail)
    impl3 = stages.run_harness(ctx, "tree", ["%s a %s" % (OPTS, c[0].encode().hex()) for c in cases3])

    def find_stmt(t):
        if t[0] == "ExpressionStatement":
            return t[1] if len(t) > 1 else None
        for c in t[1:]:
            r = find_stmt(c)
            if r:
                return r
        return None

    def norm3(e):
        if e[0] == "IdentifierName": return A
        if e[0] == "ParenthesizedExpression": return norm3(e[1])
        if e[0] == "CastExpression": return ("CASTNODE", norm3(e[2]))
        return (e[0],) + tuple(norm3(c) for c in e[1:])
    for (unit, expr, is_type, want), i in zip(cases3, impl3):
        if want is None:
            continue
        if i.startswith(("CRASH", "HANG")):
            ctx.report("crash:" + expr, "parsing %r: %s" % (unit, i[:200]), {"component": "tree", "case": "%s a %s" % (OPTS, unit.encode().hex())}); nviol += 1; continue
        whole = dump_to_sexpr(i)
        got = find_stmt(whole) if whole else None
        gs = sx(norm3(got)) if got else "nothing"
        if i.split(" | ")[-1] != "-" or gs != sx(want):
            if nviol < 6:
                ctx.report("disamb-shape:" + unit[:90], "%r with a declared as a %s: delivered %s, C groups it as %s" % (expr, "typedef name" if is_type else "variable", gs, sx(want)),
                           {"component": "tree", "case": "%s a %s" % (OPTS, unit.encode().hex()), "expected": sx(want)})
            nviol += 1
    # ---- 3b. the Lean model of the re-association (Rotate.lean; theorem reassociation_is_C) <-> the real disambiguator: the PARSER's tree
    # (disambiguation mode None keeps the ambiguity node) is fed to the model's slot function; its result must be the delivered tree
    NODE2OP = {v[3]: 100 * v[1] + i for i, (k, v) in enumerate(BIN.items())}
    UNARY = {k: i + 1 for i, k in enumerate(sorted(set(UN.values()) | {"PreIncrementExpression", "PreDecrementExpression"}))}

    def tox(e):
        k = e[0]
        if k in NODE2OP:
            return "B %d %s %s" % (NODE2OP[k], tox(e[1]), tox(e[2]))
        if k == "AmbiguousCastOrBinaryExpression":
            b = e[2]
            return "M %d A 0 %s" % (NODE2OP[b[0]], tox(b[2]))
        if k == "CastExpression":
            return "U 99 %s" % tox(e[2])
        if k in UNARY:
            return "U %d %s" % (UNARY[k], tox(e[1]))
        return "A 0"                       # identifiers, constants, the parenthesised name
    OPTS0 = OPTS.split(",")
    OPTS0[3] = "0"
    OPTS0 = ",".join(OPTS0)
    vcases = [(unit, expr) for unit, expr, is_type, want in cases3 if not is_type and want is not None]
    ptrees = stages.run_harness(ctx, "tree", ["%s a %s" % (OPTS0, u.encode().hex()) for u, _ in vcases])
    dtrees = [i for (unit, expr, is_type, want), i in zip(cases3, impl3) if not is_type and want is not None]
    feed, keep = [], []
    for (unit, expr), pt, dt in zip(vcases, ptrees, dtrees):
        if pt.startswith(("CRASH", "HANG")) or dt.startswith(("CRASH", "HANG")):
            continue
        pw, dw = dump_to_sexpr(pt), dump_to_sexpr(dt)
        pe, de = (find_stmt(pw) if pw else None), (find_stmt(dw) if dw else None)
        if pe is None or de is None or "AmbiguousCastOrBinaryExpression" not in sx(pe):
            continue
        feed.append(tox(pe)); keep.append((unit, expr, tox(de)))
    rmodel = leanb.model("rotate", "\n".join(feed) + "\n") if feed else []
    nrot = 0
    for (unit, expr, delivered), m in zip(keep, rmodel):
        if m.split(" | ")[0] != delivered or "tokens=1" not in m:
            nrot += 1
            if nrot <= 3:
                ctx.report("corr-rotate:" + expr, "%r: the disambiguator delivers %s, the Lean model of its re-association rules gives %s from the parser's tree" % (expr, delivered, m),
                           {"component": "tree", "case": "%s a %s" % (OPTS, unit.encode().hex()), "theorem": "PsycheModel.Rotate.reassociation_is_C (correspondence)"}, no_input=True)
    ctx.notes["reassociation_model_cases"] = len(keep)
    ctx.notes["reassociation_model_disagreements"] = nrot
    ctx.notes["disambiguated_shapes"] = len(cases3)
    ctx.cov.update({
        "evaluations": len(seqs) + len(cases) + len(cases3), "distinct_nontrivial": len(shapes) + len(seqs), "traces_validated_against_impl": len(seqs), "exhaustive": not ctx.quick,
        "rule": "all operator singles and pairs (30 binary/assignment/comma operators: 930) and %s triples as flat strings 'a o b o c o d' (real parser vs Lean climbing model, FAIL included); %d random expression trees to depth 4 over ALL operators (binary, assignment, conditional, comma, prefix, postfix, cast, sizeof, call, subscript, member, explicit parentheses) printed with minimal / full / redundant parentheses and compared with the parsed tree; '[e o0 | prefix operator | (int)] (a) o1 b o2 c o3 d' for the 5 ambiguous o1 (- + * & &&) x all binary o0/o2 (x o3) x 6 prefix operators and casts in whole units with a declared as variable and as typedef name: the tree delivered after disambiguation against C's grouping; non-trivial = distinct expected tree shapes + flat strings"
                % ("all 27,000" if not ctx.quick else "6,000 sampled", len(cases)),
        "samples": [texts[40], texts[-1], cases[0][0], cases[1][0], cases[2][0]],
    })
    ctx.notes.update({"property_violations": nviol, "correspondence_disagreements_on_underivable_strings": ncorr, "flat_strings": len(seqs), "round_trips": len(cases)})
    ctx.assumptions += ["the Lean theorem covers binary, assignment and comma operators over atomic operands (with the parser's assignment rejection rule); the conditional operator and the unary/postfix/cast/primary layers are covered by the round-trip oracle only",
                        "operands of sizeof are generated in the 'sizeof unary-expression' form; casts use keyword types (typedef-name casts are C09's ambiguity)"]
    if not proved:
        stages.lean_unproved(ctx, "C06", "PsycheModel.Props.C06")


def replay(ctx, rec):
    stages.cxx_stage(ctx, "ndebug")
    l = rec["replay"]["case"]
    i = stages.run_harness(ctx, "tree", [l])[0]
    print("expression:", bytes.fromhex(l.split()[2]).decode())
    g = dump_to_sexpr(i) if not i.startswith(("CRASH", "HANG")) else None
    print("parsed    :", sx(g) if g else i[:300]); print("expected  :", rec["replay"].get("expected", rec["replay"].get("model")))
    ctx.cov.update({"evaluations": 1, "samples": [l]})
    return ctx.finish()
