"""C08 — Type-specifier multisets map to the basic types of C11 6.7.2.

Proof: lean/PsycheModel/Props/C08.lean (every keyword sequence of any length/order, any interleaving).
Tie: hand model (PsycheModel/Specifiers.lean) <-> real DeclarationBinder, exhaustive over all sequences up to
length 4 (quick) / 5 (thorough) in four declaration positions, with and without interleaved const/static.
Oracle: the C11 table (SpecifierSpec.lean `rowOf`), printed by psymodel as the third field."""
import itertools
from .. import stages

KW = ["void", "char", "short", "int", "long", "float", "double", "signed", "unsigned", "_Bool", "_Complex"]
INVALID, MISSING = "DeclarationBinder-100-6.7.2-2-B", "DeclarationBinder-100-6.7.2-2-A"


def interleave(rng, seq, ctx_kind):
    extra = ["const", "volatile"]
    if ctx_kind == "v":
        extra += ["static", "extern"]
    elif ctx_kind == "p":
        extra += ["register"]
    out = list(seq)
    for e in rng.sample(extra, rng.randrange(1, min(3, len(extra)) + 1)):
        out.insert(rng.randrange(len(out) + 1), e)
    return out


def canon_diags(d):
    return ",".join(sorted(set(x for x in d.split(",") if x != "-"))) or "-"


def run(ctx):
    proved = stages.lean_stage(ctx, "PsycheModel.Props.C08")
    stages.cxx_stage(ctx, "ndebug")
    maxlen = 4 if ctx.quick else 5
    seqs = []
    for n in range(1, maxlen + 1):
        seqs += list(itertools.product(KW, repeat=n))
    lines = []
    for c in "vpft":
        for s in seqs:
            lines.append("%s %s" % (c, " ".join(s).encode().hex()))
    nplain = len(lines)
    # interleaved qualifiers / storage classes: every sequence once per context in the thorough tier, a third in quick
    for c in "vpft":
        for j, s in enumerate(seqs):
            if ctx.quick and len(s) > 3 and (j + ord(c)) % 3:
                continue
            lines.append("%s %s" % (c, " ".join(interleave(ctx.rng, s, c)).encode().hex()))
            if len(s) <= 3:        # and deterministically with one qualifier at every gap
                for g in range(len(s) + 1):
                    lines.append("%s %s" % (c, " ".join(list(s[:g]) + [("const", "volatile")[(g + j) % 2]] + list(s[g:])).encode().hex()))
    # longer random sequences (every sequence of length >= 5 must be diagnosed)
    for _ in range(5000 if ctx.quick else 40000):
        n = ctx.rng.randrange(5, 8)
        s = [ctx.rng.choice(KW) for _ in range(n)]
        c = ctx.rng.choice("vpft")
        if ctx.rng.random() < 0.5:
            s = interleave(ctx.rng, s, c)
        lines.append("%s %s" % (c, " ".join(s).encode().hex()))
    # no type specifier at all
    for t in ["static", "const", "static const", "extern volatile"]:
        lines.append("v " + t.encode().hex())
    # INDEPENDENCE OF DECLARATIONS: the same sequences with another (valid) declaration in front of them - a previous variable, parameter,
    # field or typedef, the function's return type, a previous block declaration: the verdict and the type must be those of the sequence alone
    # (seeded change C08-c let the combining state of one specifier list leak into the next)
    PRIMERS = ["_Complex", "_Complex float", "float _Complex", "long", "long long", "unsigned", "signed", "short", "double", "long double", "char", "long _Complex double",
               "unsigned long long", "_Bool", "signed char"]
    nprimed = 0
    for c in "vpftrb":
        for pr in PRIMERS:
            for j, sq in enumerate(seqs):
                if len(sq) > (3 if ctx.quick else 4):
                    break
                if ctx.quick and len(sq) == 3 and (j + len(pr)) % 2:
                    continue
                lines.append("%s:%s %s" % (c, pr.encode().hex(), " ".join(sq).encode().hex()))
                nprimed += 1
    ctx.log("%d cases (%d plain exhaustive up to length %d, %d behind another declaration)" % (len(lines), nplain, maxlen, nprimed))
    from .. import leanb
    impl = stages.run_harness(ctx, "specifiers", lines)
    model = leanb.model("specifiers", "\n".join({"r": "p", "b": "v"}.get(l[0], l[0]) + " " + l.split()[1] for l in lines) + "\n")
    nviol = ncorr = 0
    valid_rows = set()
    for l, i, m in zip(lines, impl, model):
        ity, idg = i.split()
        mty, mdg, spec = m.split()
        idg = canon_diags(idg)
        c, hx = l.split()
        text = bytes.fromhex(hx).decode()
        if ":" in c:
            text += "   (after a declaration with the specifiers [%s], position %s)" % (bytes.fromhex(c.split(":")[1]).decode(), c[0])
            c = c[0]
        base = ity
        if base.startswith("(Q"):
            base = base[base.index("_") + 1:-1]
        # property oracle on the implementation's answer
        bad = None
        if spec == "invalid":
            if INVALID not in idg:
                bad = "the multiset is no row of 6.7.2p2 but no invalid-type diagnostic was issued (bound type %s)" % ity
        elif spec == "Int_S+missing":
            if MISSING not in idg or base != "Int_S":
                bad = "no type specifier: expected the missing-specifier diagnostic and int, got %s %s" % (ity, idg)
        else:
            valid_rows.add((c, spec, tuple(sorted(text.split()))))
            if INVALID in idg:
                bad = "a row of 6.7.2p2 (%s) was reported as an invalid type" % spec
            elif base != spec:
                bad = "the row denotes %s but the symbol was bound to %s" % (spec, ity)
        if bad:
            if nviol < 3:
                ctx.report("spec:%s|%s" % (c, text), "declaration position %s, specifiers [%s]: %s" % (c, text, bad),
                           {"component": "specifiers", "case": l, "impl": i, "model": m})
            nviol += 1
        elif idg != canon_diags(mdg) or (INVALID not in idg and ity != mty):     # after an invalid-type diagnostic the leftover type is unspecified
            if ncorr < 3:
                ctx.report("corr:%s|%s" % (c, text), "position %s, specifiers [%s]: binder gives %s %s, Lean model %s %s (no clause of the property is violated by the binder's answer)"
                           % (c, text, ity, idg, mty, mdg), {"component": "specifiers", "case": l, "impl": i, "model": m}, no_input=True)
            ncorr += 1
    ctx.cov.update({
        "evaluations": len(lines), "distinct_nontrivial": len(valid_rows), "traces_validated_against_impl": len(lines),
        "exhaustive": True,
        "rule": "all sequences of length 1..%d over the 11 keywords (%d) in variable, parameter, field and typedef position (exhaustive), %s of them again with const/volatile/static/extern/register interleaved at random places, seeded random sequences of length 5..7, and declarations with no type specifier; non-trivial = distinct (position, keyword multiset) cases that are rows of the table"
                % (maxlen, len(seqs), "a third" if ctx.quick else "all"),
        "samples": [bytes.fromhex(lines[k].split()[1]).decode() for k in (7, len(seqs) // 2, nplain + 5, len(lines) - 10)],
    })
    ctx.notes.update({"property_violations": nviol, "correspondence_disagreements": ncorr})
    ctx.assumptions += ["only the eleven keywords of the property are covered (typedef names, tags, __complex__ spelling, _Atomic(...) are out of scope)",
                        "the binder is run up to bindDeclarations only; canonicalisation keeps the BasicTypeKind"]
    if not proved:
        stages.lean_unproved(ctx, "C08", "PsycheModel.Props.C08")


def replay(ctx, rec):
    stages.cxx_stage(ctx, "ndebug")
    from .. import leanb
    leanb.lake_build(["psymodel"])
    l = rec["replay"]["case"]
    impl = stages.run_harness(ctx, "specifiers", [l])
    model = leanb.model("specifiers", {"r": "p", "b": "v"}.get(l[0], l[0]) + " " + l.split()[1] + "\n")
    print("case  :", l.split()[0], bytes.fromhex(l.split()[1]).decode())
    print("binder:", impl[0])
    print("model :", model[0], "  (type diags SPEC)")
    ctx.cov.update({"evaluations": 1, "samples": [l]})
    spec = model[0].split()[2]
    ity, idg = impl[0].split()
    if (spec == "invalid") != (INVALID in idg):
        ctx.report("spec:" + l, "verdict differs from the table", {"case": l})
    return ctx.finish()
