"""C14 — Node extents nest and traversal reaches every node exactly once.

Proof: lean/PsycheModel/Props/C14.lean (generic tree: any shape/depth, null children, missing tokens, lists).
Tie: hand model (PsycheModel/Tree.lean) <-> real SyntaxNode::firstToken/lastToken/acceptVisitor on every node of
generated valid and mutated programs in all four disambiguation modes; the hypotheses of the theorems
(`Ordered`, `listsOK`) are evaluated on every real tree.  Oracle: min/max of the subtree's tokens, one visit per node."""
import re
from .. import stages
from ..common import ROOT
import sys
sys.path.insert(0, ROOT)
from gen.cgen import Gen, mutate_tokens, mutate_bytes
import random


def opts(mode):
    return mode if isinstance(mode, str) else "2,1,0,%d,%s" % (mode, "d" * 31)


def make_inputs(ctx, n_valid, n_mut):
    rng = ctx.rng
    cases = []
    for i in range(n_valid):
        g = Gen(random.Random(rng.randrange(1 << 30)), typed=True, gnu=(i % 4 == 0), kr=(i % 5 == 0))
        text = g.program()
        cases.append(("valid", i % 4 if i % 3 else 2, "a", text))
        if i % 5 == 0:
            # ... and under random parse options (standard, every extension / translation switch, comment mode): the tree properties do not
            # depend on what the options make of the text
            ro = "%d,1,%d,%d,%s" % (rng.randrange(4), rng.randrange(3), rng.randrange(4), "".join(rng.choice("01d") for _ in range(31)))
            cases.append(("valid-random-options", ro, "a", text))
    base = [c[3] for c in cases]
    for i in range(n_mut):
        t = base[rng.randrange(len(base))]
        if i % 3 == 2:
            t = mutate_bytes(rng, t, rng.randrange(1, 4)).decode("latin-1").encode("latin-1")
            cases.append(("bytes", rng.randrange(4), "a", t))
        else:
            cases.append(("tokens", rng.randrange(4), "a", mutate_tokens(rng, t, rng.randrange(1, 4))))
    # stand-alone categories and ambiguity forms in every mode
    amb = ["void f(){ T * x; }", "void f(){ a(b); }", "void f(){ x = (T) - 1; }", "void f(){ x = sizeof(T); }", "void f(){ T(x); y = (a)*b; _Alignof(z); }",
           "typedef int T; void f(){ T * x; T(y); (T)-1; sizeof(T); }", "int a; void f(){ a * x; a(y); (a)-1; sizeof(a); }"]
    # every ambiguity form with 0..3 extra pairs of parentheses around each part, the name undeclared / a typedef name / a function / a
    # variable (the parser builds the second reading of an ambiguity out of the nodes of the first: seeded change C14-b nested the
    # parenthesised declarators of 'x ( ( ( y ) ) ) ;' inside out)
    def par(x, k):
        return "( " * k + x + " )" * k
    for decl in ("", "typedef int x ;", "int x ( int ) ;", "int x ;"):
        for k in range(4):
            for j in range(3):
                body = "x ( %s ) ; x * %s ; y = ( %s ) - %s ; y = ( %s ) * %s ; y = sizeof ( %s ) ; y = ( %s ) ( %s ) ; y = _Alignof ( %s ) ;" % (
                    par("y", k), par("z", k), par("x", j), par("w", k), par("x", j), par("w", k), par("x", k), par("x", j), par("w", k), par("x", k))
                amb.append("%s void f ( ) { %s }" % (decl, body))
                amb.append("%s void f ( ) { x ( %s ) ; }" % (decl, par("y", k)))
                amb.append("%s void f ( ) { x * %s ; }" % (decl, par("y", k)))
    from gen.ambiggen import AmbigGen
    ag = AmbigGen(__import__("random").Random(1)).base_cases()
    for c in ag[:: (9 if ctx.quick else 1)]:
        amb.append(c["text"])
    for m in range(4):
        for t in amb:
            cases.append(("ambiguity", m, "a", t))
    for cat, t in [("e", "a + b * c"), ("e", "f(x, y)[2].m->n++"), ("s", "if (a) b; else { c; }"), ("s", "for (int i = 0; i < n; ++i) x += i;"), ("d", "int x = 1, *y;"),
                   ("d", "struct S { int a; } s;"), ("e", "a +"), ("s", "while ("), ("d", "int (")]:
        cases.append(("category", 2, cat, t))
    # the syntactic corpus shared with C03/C04 (every node kind, trailing asm/attribute combinations, adjacent literals, builtins)
    from gen.snippets import corpus
    for cat, t in corpus():
        cases.append(("corpus", 2, cat, t))
    # ... and the forms that need every extension / translation switched on (mode given as the whole option string), in the four modes
    from gen.snippets import extension_corpus
    for cat, t in extension_corpus():
        for m in range(4):
            cases.append(("ext-corpus", "2,1,0,%d,%s" % (m, "1" * 31), cat, t))
            cases.append(("ext-corpus", "2,1,0,%d,%s" % (m, "1" * 31), cat, mutate_tokens(rng, t, 1)))
    return cases


def run(ctx):
    proved = stages.lean_stage(ctx, "PsycheModel.Props.C14")
    stages.cxx_stage(ctx, "ndebug")
    cases = make_inputs(ctx, 400 if ctx.quick else 6000, 800 if ctx.quick else 15000)
    lines = []
    for kind, mode, cat, text in cases:
        b = (text if isinstance(text, bytes) else text.encode()) or b" "
        lines.append("%s %s %s" % (opts(mode), cat, b.hex()))
    impl, model = _both(ctx, lines)
    nviol = ncorr = 0
    nodes = amb = hollow = unordered = noroot = 0
    kinds_seen = set()
    kind_class = {}
    for (kind, mode, cat, text), l, i, m in zip(cases, lines, impl, model):
        for k in re.findall(r" N\d+ (\w+) ", i):
            kinds_seen.add(k)
        if m.startswith("no-root") or i.startswith(("exception", "CRASH", "HANG")):
            noroot += 1
            continue
        mm = re.match(r"nodes=(\d+) ambiguous=(\d+) ordered=(\d) listsOK=(\d) model=\[(.*)\] spec=\[(.*)\]$", m)
        if not mm:
            raise RuntimeError("driver answer not understood: %r for dump %r" % (m[:200], i[:200]))
        nodes += int(mm.group(1)); amb += int(mm.group(2))
        ordered, lok, modelmis, specmis = mm.group(3) == "1", mm.group(4) == "1", mm.group(5), mm.group(6)
        fm = re.search(r"foreign=(\d+)", i)
        if not fm:
            raise RuntimeError("dump without trailer: %r (case %r)" % (i[:300], l[:120]))
        foreign = int(fm.group(1))
        hollow += not lok
        bad = None
        if specmis:
            bad = "node(s) whose reported extent is not the first/last token of their subtree, or visited other than once: " + specmis[:400]
        elif not ordered:
            unordered += 1
            bad = "the tokens owned by the nodes do not appear in increasing source order along the children"
        elif foreign:
            bad = "%d node(s) were visited that are not reachable from the root through childNodesAndTokens" % foreign
        km = re.search(r" kc=(\S+)", i)
        if km and km.group(1) != "-":
            for pair in km.group(1).split(","):
                k_, c_ = pair.split(":")
                kind_class.setdefault(k_, set()).update(c_.split("+"))
        dm = re.search(r" dc=(\d+)(?::(\S+))?", i)
        if not bad and dm and int(dm.group(1)):
            # the class a node dispatches to (its visitX) against every asY() of SyntaxNode and, for one-kind classes, against its kind
            # (class table regenerated from SyntaxNodes*.h by translators/nodeclasses.py)
            bad = "%s node(s) whose kind-specific down-casts do not correspond to their kind / class: %s" % (dm.group(1), dm.group(2))
        shown = text if isinstance(text, str) else text.decode("latin-1")
        if bad and specmis and re.search(r"\)\s*=[^=]", shown) and all(x.split(":")[1] == "ParenthesizedDeclarator" and "max=" in x for x in specmis.split(",") if ":" in x) \
                and not any(re.search(r"l=(\d+)/max=(\d+)", x) is None for x in specmis.split(",") if ":" in x):
            # the only nodes off are parenthesised declarators whose subtree reaches beyond their `)': the initializer stored inside (C03's finding)
            ctx.report("paren-declarator-initializer", "the initializer of a parenthesised declarator is stored inside the parentheses: the declarator's last token is its ')' while its subtree extends over the initializer (e.g. %r: %s)" % (shown[:60], specmis[:120]), {})
        elif bad:
            if nviol < 3:
                ctx.report("tree:" + shown[:80], "%s input (disambiguation mode %d, category %s) %r: %s" % (kind, mode, cat, shown[:300], bad),
                           {"component": "tree", "case": l, "driver": m[:2000]})
            nviol += 1
        elif modelmis:
            if ncorr < 3:
                ctx.report("corr:" + shown[:80], "firstToken/lastToken/visit of the front end differ from the Lean model on %r: %s" % (shown[:300], modelmis[:400]),
                           {"component": "tree", "case": l, "driver": m[:2000]}, no_input=True)
            ncorr += 1
    # every syntax kind is built by ONE class, over all trees; the kinds SyntaxFacts calls assignment / binary expressions by those classes
    from translators import facts as _facts
    from ..common import REPO
    try:
        ft = _facts.parse(REPO)
    except Exception:
        ft = {"isasg": [], "isbin": []}
    for k_, cs in sorted(kind_class.items()):
        want = "AssignmentExpression" if k_ in ft["isasg"] else "BinaryExpression" if k_ in ft["isbin"] else None
        if len(cs) > 1 or (want and cs != {want}) or (k_ in cs and False):
            ctx.report("kind-class:" + k_, "nodes of kind %s are built as %s%s: the kind-specific down-cast does not correspond to the kind" % (k_, " and ".join(sorted(cs)), " (SyntaxFacts puts the kind with class %s)" % want if want else ""),
                       {"component": "tree", "kind": k_, "classes": sorted(cs)}, no_input=True)
    if ctx.translator_errors.get("nodeclasses") and not ctx.violations:
        ctx.report("translator:nodeclasses", "translators/nodeclasses.py could not translate the node class declarations (%s); the down-casts were checked against the committed last-known-good class table, but the generated obligations are no longer about the current source" % ctx.translator_errors["nodeclasses"],
                   {"translator": "translators/nodeclasses.py", "error": ctx.translator_errors["nodeclasses"]}, no_input=True)
    ctx.notes["kind_to_class"] = {k_: sorted(cs)[0] for k_, cs in sorted(kind_class.items())}
    ctx.cov.update({
        "evaluations": len(cases), "distinct_nontrivial": len(kinds_seen), "traces_validated_against_impl": len(cases), "exhaustive": False,
        "rule": "generated gcc-valid C11/GNU/K&R programs (gen/cgen.py, every supported production) in the four disambiguation modes, token- and byte-mutated variants (erroneous trees: missing tokens, null children), every ambiguity form x 4 modes, stand-alone expressions/statements/declarations incl. truncated ones; every node of every tree compared (first, last, visit count) with the Lean model and with min/max of its subtree; non-trivial = distinct node kinds that occurred",
        "samples": [cases[0][3][:200], str(cases[len(cases) // 2][3])[:200], cases[-3][3]],
    })
    ctx.notes.update({"nodes_checked": nodes, "ambiguity_nodes": amb, "trees_with_hollow_list_head_or_tail": hollow, "trees_without_root": noroot,
                      "property_violations": nviol, "correspondence_disagreements": ncorr, "node_kinds_seen": len(kinds_seen)})
    ctx.assumptions += ["the clause 'the kind-specific downcast agrees with the kind' is exercised indirectly (the dump dispatches on kind()) but not checked per class",
                        "list delimiters belong to the list structure and are not part of a node's extent",
                        "under an unresolved ambiguity node only the first alternative is used for the order clause (exempt by the property)"]
    if not proved:
        stages.lean_unproved(ctx, "C14", "PsycheModel.Props.C14")


def _both(ctx, lines):
    from .. import leanb
    impl = stages.run_harness(ctx, "tree", lines)
    # crashes / hangs are C01's business (same generators run there); here they are counted and skipped
    feed = [l if not l.startswith(("CRASH", "HANG")) else "0 ; no-root | foreign=0 | -" for l in impl]
    model = leanb.model("tree", "\n".join(feed) + "\n")
    ctx.notes["harness_crashes_or_hangs"] = sum(1 for l in impl if l.startswith(("CRASH", "HANG")))
    return impl, model


def replay(ctx, rec):
    stages.cxx_stage(ctx, "ndebug")
    l = rec["replay"]["case"]
    impl, model = _both(ctx, [l])
    print("text:", bytes.fromhex(l.split()[2]).decode("latin-1"))
    print("dump:", impl[0].replace(" ; ", "\n  "))
    print("driver:", model[0])
    ctx.cov.update({"evaluations": 1, "samples": [l]})
    return ctx.finish()
