"""C18 — Equal spellings share one lexeme object; different spellings never do.

Proof: lean/PsycheModel/Props/C18.lean (every hash function, every history of NUL-free words).
Tie: hand model PsycheModel/TextTable.lean <-> real TextElementTable<Identifier>/<StringLiteral>.
Search/oracle: a Python dict (word -> first identity) applied to the implementation's answers."""
import itertools
from .. import stages


def hx(b):
    return bytes(b).hex()


ADVERSARIAL = [b"a", b"b", b"ab", b"aa", b"", b"abc", b"abd", b"ab\xc3\xa9", b"a$", b"_", b"aaaaaaaaaaaaaaaaaaaaaaaaaaaaaaaaa",
               b"aaaaaaaaaaaaaaaaaaaaaaaaaaaaaaaab", b"x1", b"x2", b"\xe4\xb8\xad", b"\xe4\xb8\xae", b"A", b"Ab", b"aB"]


def pjw(w):
    h = 0
    for c in w:
        sx = c if c < 128 else (c + 0xffffff00)
        h = ((h << 4) + sx) & 0xffffffff
        h ^= (h & 0xf0000000) >> 23
        h &= 0x0fffffff
    return h


def colliding_words(rng, n, mod):
    """n distinct words whose hash is congruent mod `mod` (same bucket for every table size <= mod)."""
    out, target = [], None
    while len(out) < n:
        w = bytes(rng.choice(b"abcdefghijklmnopqrstuvwxyz_0123456789") for _ in range(rng.randrange(1, 9)))
        h = pjw(w) % mod
        if target is None:
            target = h
        if h == target and w not in out:
            out.append(w)
    return out


def full_hash_prefix_pairs():
    """Pairs (w, w + s) with the SAME 28-bit hash, found from the structure of the hash function (the fold '>> 23' gives periodic words a
    period of 23 or 46 repetitions) and checked with the transcription above: a hash hit on a word that is a proper prefix of a stored
    one is exactly where the equality test of the table has to look at the length (seeded change C18-b replaced the length test by a
    test of the cached hash).  Three more pairs were found by brute force by the author of that change."""
    out = [(b"nwxgwmnn", b"nwxgwmnnN"), (b"knno_djx", b"knno_djxx"), (b"8879988862", b"88799888622")]
    for unit in (b"x", b"0", b"a", b"_", b"Z", b"9", b"ab", b"01", b"abc", b"x1", b"7", b"q_", b"\xc3\xa9", b"zz9"):
        for n in (1, 2, 3, 5):
            for d in (23, 46):
                a, b = unit * n, unit * (n + d)
                if pjw(a) == pjw(b):
                    out.append((a, b))
    return [(a, b) for a, b in out if pjw(a) == pjw(b)]


def enum_histories(words, maxlen):
    ops = ["i" + hx(w) for w in words] + ["f" + hx(w) for w in words]
    out = []
    for n in range(1, maxlen + 1):
        for t in itertools.product(ops, repeat=n):
            out.append(" ".join(t))
    return out


def random_word(rng):
    k = rng.random()
    if k < 0.5:
        return bytes(rng.choice(b"abcdefgh") for _ in range(rng.randrange(1, 5)))
    if k < 0.8:
        return bytes(rng.choice(b"abcdefghijklmnopqrstuvwxyzABCXYZ_$0123456789") for _ in range(rng.randrange(1, 12)))
    if k < 0.9:
        return bytes(rng.choice([0x61, 0xc3, 0xa9, 0xe4, 0xb8, 0xad, 0xff, 0x80]) for _ in range(rng.randrange(1, 6)))
    return rng.choice(ADVERSARIAL)


def random_history(rng, nops):
    ops = []
    pool = []
    for _ in range(nops):
        if pool and rng.random() < 0.35:
            w = rng.choice(pool)
            if rng.random() < 0.3:            # near miss: differ in the last byte / in length
                w = w[:-1] + bytes([(w[-1] ^ 1) or 1]) if w and rng.random() < 0.5 else w + b"a"
        else:
            w = random_word(rng)
        pool.append(w)
        ops.append(("f" if rng.random() < 0.25 else "i") + hx(w))
    return " ".join(ops)


def oracle(ctx, line, impl):
    """Spec check on the implementation's answer alone. Returns description of a violation or None."""
    ops = line.split()
    try:
        res, size, texts = impl.split(" | ") if impl.count(" | ") == 2 else (impl.split(" | ") + ["", ""])[:3]
    except ValueError:
        return "unparsable answer %r" % impl[:200]
    res = res.split()
    texts = texts.split(",") if texts != "" or size == "1" else []
    if len(res) != len(ops):
        return "answer has %d results for %d ops: %r" % (len(res), len(ops), impl[:200])
    first = {}          # word -> identity
    owner = {}          # identity -> word
    for j, (op, r) in enumerate(zip(ops, res)):
        w = op[1:]
        if "00" in [w[k:k + 2] for k in range(0, len(w), 2)]:
            return None       # NUL inside a word: outside the property (checked by correspondence only)
        if op[0] == "i":
            if not r.isdigit():
                return "op %d (%s): findOrInsert answered %r" % (j, op, r)
            if w in first and first[w] != r:
                return "op %d: spelling %s got object %s but the same spelling had object %s before" % (j, w, r, first[w])
            if r in owner and owner[r] != w:
                return "op %d: spellings %s and %s share object %s" % (j, w, owner[r], r)
            first[w] = r
            owner[r] = w
        else:
            exp = first.get(w, "-")
            if r != exp:
                return "op %d: find(%s) answered %s, expected %s" % (j, w, r, exp)
    if str(len(first)) != size:
        return "table size %s but %d distinct spellings were inserted" % (size, len(first))
    for idn, w in owner.items():
        k = int(idn)
        if k >= len(texts) or texts[k] != w:
            return "element %s has text %s but was created for spelling %s (text changed)" % (idn, texts[k] if k < len(texts) else "?", w)
    return None


def shrink(line, fails):
    ops = line.split()
    # ddmin-lite: drop single ops while it still fails
    changed = True
    while changed and len(ops) > 1:
        changed = False
        for i in range(len(ops)):
            cand = ops[:i] + ops[i + 1:]
            if fails(" ".join(cand)):
                ops, changed = cand, True
                break
    return " ".join(ops)


def check_lines(ctx, lines, flavour, with_model=True):
    from ..common import sh
    from .. import build
    if with_model:
        impl, model = stages.run_both(ctx, "textable", lines, flavour)
    else:
        text = "\n".join(lines) + "\n"
        rc, out, err = sh([build.psyh(flavour), "textable"], input=text, timeout=3000)
        if rc != 0:
            raise RuntimeError("psyh textable died: rc=%s %s" % (rc, err[-800:]))
        impl = out.split("\n")[:-1]
        model = impl
    nbad = 0
    order = sorted(range(len(lines)), key=lambda j: len(lines[j]))
    for j in order:
        l, i, m = lines[j], impl[j], model[j]
        v = oracle(ctx, l, i)
        if v is None and i != m:
            v2 = "implementation and Lean model disagree (impl %r, model %r)" % (i[:300], m[:300])
            small = shrink(l, lambda c: _differs(ctx, c, flavour)) if len(l) < 4000 else l
            ctx.report("corr:" + small[:200], "history [%s]: %s; the property oracle finds no violated clause on it" % (small[:300], v2),
                       {"component": "textable", "history": small, "impl": i, "model": m, "correspondence": "PsycheModel.TextTable vs TextElementTable.h"}, no_input=True)
            nbad += 1
        elif v is not None:
            small = shrink(l, lambda c: _viol(ctx, c, flavour)) if len(l) < 4000 else l
            ii = _impl_one(small, flavour)
            ctx.report("history:" + small[:200], "history [%s]: %s" % (small[:300], oracle(ctx, small, ii) or v),
                       {"component": "textable", "history": small, "impl": ii})
            nbad += 1
        if nbad >= 3:
            break
    return nbad


def _impl_one(line, flavour):
    from ..common import sh
    from .. import build
    rc, out, err = sh([build.psyh(flavour), "textable"], input=line + "\n", timeout=60)
    return out.strip("\n") if rc == 0 else "CRASH rc=%s %s" % (rc, err[-300:])


def _viol(ctx, line, flavour):
    return oracle(ctx, line, _impl_one(line, flavour)) is not None


def _differs(ctx, line, flavour):
    from .. import leanb
    return _impl_one(line, flavour) != leanb.model("textable", line + "\n")[0]


def run(ctx):
    proved = stages.lean_stage(ctx, "PsycheModel.Props.C18")
    stages.cxx_stage(ctx, "ndebug")
    rng = ctx.rng
    # 1. exhaustive small histories over adversarial word sets
    coll = colliding_words(rng, 3, 64)
    sets = [[b"a", b"ab", b"b"], [b"abc", b"abd", b""], coll]
    maxlen = 4 if ctx.quick else 5
    lines = []
    for ws in sets:
        lines += enum_histories(ws, maxlen)
    nex = len(lines)
    # 2. growth thresholds: histories with many distinct words (model side is O(n^2): keep <= 3000 distinct)
    for target in ([5, 9, 17, 40, 100, 400, 1500] if ctx.quick else [5, 9, 17, 33, 65, 129, 400, 1000, 3000]):
        ops, allw = [], []
        for n in range(target):
            w = b"w%d" % n if n % 3 else bytes(rng.choice(b"abcdefgh") for _ in range(1 + n % 7)) + b"%d" % n
            if n % 4 == 1:          # bytes >= 0x80 (UTF-8 identifiers, arbitrary bytes in string literals)
                w = rng.choice([b"\xc3\xa9", b"\xe4\xb8\xad", b"caf\xc3\xa9", b"\xff", b"\xcf\x80r"]) + b"%d" % n
            allw.append(w)
            ops.append("i" + hx(w))
            if n + 1 in (5, 21, 100, 400, target):      # after each growth phase every spelling must still be found, as the same object
                ops += ["f" + hx(x) for x in allw] + ["i" + hx(x) for x in allw[::3]]
            if n % 5 == 0:
                ops.append("f" + hx(w))
                ops.append("f" + hx(w + b"x"))
            if n % 7 == 0:
                ops.append("i" + hx(b"w%d" % rng.randrange(0, n + 1)))
        lines.append(" ".join(ops))
    # 3. same-bucket sets and random histories
    for _ in range(5 if ctx.quick else 40):
        cw = colliding_words(rng, 12, 256)
        ops = ["i" + hx(w) for w in cw] + ["f" + hx(w) for w in cw] + ["i" + hx(w) for w in reversed(cw)]
        lines.append(" ".join(ops))
    for _ in range(400 if ctx.quick else 4000):
        lines.append(random_history(rng, rng.randrange(5, 120)))
    # 3b. full-hash collisions between a word and a proper prefix of it, in both insertion orders, with finds in between and after growth
    pairs = full_hash_prefix_pairs()
    for a, b in pairs:
        for first, second in ((a, b), (b, a)):
            lines.append(" ".join(["i" + hx(first), "f" + hx(second), "i" + hx(second), "f" + hx(first), "f" + hx(second), "i" + hx(first), "i" + hx(second)]))
    ops = []
    for j, (a, b) in enumerate(pairs):
        ops += ["i" + hx(b if j % 2 else a), "i" + hx(b"pad%d" % j), "i" + hx(a if j % 2 else b)]
    ops += ["f" + hx(w) for ab in pairs for w in ab] + ["i" + hx(w) for ab in pairs for w in ab]
    lines.append(" ".join(ops))
    ctx.notes["full_hash_prefix_pairs"] = len(pairs)
    # the NUL witness of Props/C18.lean (correspondence only)
    lines.append("i610062 i610063")
    lines.append("i61 i6100 i610000 f61 f6100")
    bad = check_lines(ctx, lines, "ndebug")
    # 4. big runs, implementation vs oracle only (10^4 / 10^5..10^6 distinct words)
    big = []
    for total in ([10000] if ctx.quick else [100000, 400000]):
        ops = []
        for n in range(total):
            ops.append("i" + hx(b"%x_%d" % (n * 2654435761 & 0xffffffff, n % 13)))
            if n % 9 == 0:
                ops.append("i" + hx(b"%x_%d" % (rng.randrange(0, n + 1) * 2654435761 & 0xffffffff, 0)))
        big.append(" ".join(ops))
    bad += check_lines(ctx, big, "ndebug", with_model=False)
    if not ctx.quick:
        stages.cxx_stage(ctx, "asan")
        bad += check_lines(ctx, lines[:20000] + lines[nex:], "asan")
    distinct = set(lines)
    ctx.cov.update({
        "evaluations": len(lines) + len(big),
        "distinct_nontrivial": sum(1 for l in distinct if len(set(o[1:] for o in l.split())) < len(l.split()) and len(l.split()) >= 3),
        "traces_validated_against_impl": len(lines),
        "exhaustive": True,
        "rule": "all histories of 1..%d findOrInsert/find ops over three adversarial 3-word sets (prefixes / last byte differs / same bucket: %d, exhaustive), growth histories crossing every rehash threshold up to %d distinct words, same-bucket sets, %d seeded random histories, and implementation-vs-oracle runs with %s distinct words; non-trivial = distinct histories of >=3 ops in which some spelling occurs more than once"
                % (maxlen, nex, 1500 if ctx.quick else 3000, 400 if ctx.quick else 4000, "10^4" if ctx.quick else "10^5 and 4*10^5"),
        "samples": [lines[nex // 3], lines[nex - 1], lines[-3][:300]],
    })
    ctx.notes["disagreements"] = bad
    ctx.assumptions += ["words contain no NUL byte (the lexer never produces one: the source buffer is NUL-terminated); the NUL behaviour of strncmp/strncpy is modelled and compared, but is outside the property",
                        "realloc/calloc/new succeed", "object identity is observed as the index returned by at(); pointer values are never compared across runs"]
    if not proved:
        stages.lean_unproved(ctx, "C18", "PsycheModel.Props.C18")


def replay(ctx, rec):
    stages.cxx_stage(ctx, "ndebug")
    h = rec["replay"]["history"]
    i = _impl_one(h, "ndebug")
    print("history:", h[:2000])
    print("impl   :", i[:2000])
    v = oracle(ctx, h, i)
    print("oracle :", v or "no violated clause")
    if v:
        ctx.report("history:" + h[:200], "history [%s]: %s" % (h[:300], v), {"component": "textable", "history": h, "impl": i})
    ctx.cov.update({"evaluations": 1, "samples": [h[:500]]})
    return ctx.finish()
