"""C20 — VersionedMap restores exactly the contents of any earlier revision.

Proof: lean/PsycheModel/Props/C20.lean (all histories, all key/value types).
Tie: hand-written model (PsycheModel/VMap.lean) <-> real template, same histories, outputs diffed.
Search: the Lean snapshot spec (Driver/VMapDrv.lean `Spec`) is evaluated on the same history; the first
op where the implementation's content differs from the spec's is the failing input."""
import itertools
from ..common import sh
from .. import build, leanb, stages

KEYS, VALS = (1, 2, 3), (10, 11)


def enum_histories(maxlen, KEYS=KEYS, VALS=VALS):
    """All valid histories of length 1..maxlen over the keys x values with switches to every existing revision."""
    out = []

    def rec(prefix, cnt, left):
        if prefix:
            out.append(" ".join(prefix))
        if left == 0:
            return
        for k in KEYS:
            for v in VALS:
                rec(prefix + ["i%d,%d" % (k, v)], cnt + 1, left - 1)
        for r in range(cnt + 1):
            rec(prefix + ["s%d" % r], cnt, left - 1)
    rec([], 0, maxlen)
    return out


def random_history(rng, n):
    ops, cnt = [], 0
    nk = rng.choice([2, 3, 5, 8])
    for _ in range(n):
        if cnt == 0 or rng.random() < 0.6:
            ops.append("i%d,%d" % (rng.randrange(1, nk + 1), rng.randrange(10, 14)))
            cnt += 1
        else:
            # bias towards old revisions and branch points
            r = rng.choice([0, cnt, rng.randrange(cnt + 1), rng.randrange(cnt + 1), max(0, cnt - 1)])
            ops.append("s%d" % r)
    return " ".join(ops)


def compare(ctx, hist, impl, model):
    """Return number of disagreements; report violations."""
    bad = 0
    order = sorted(range(len(hist)), key=lambda j: len(hist[j]))
    for h, i, m in ((hist[j], impl[j], model[j]) for j in order):
        parts = m.split(" M ")
        valid = parts[0]
        mo, so = parts[1].split(" S ") if len(parts) > 1 else ("", "")
        if valid != "valid":
            raise RuntimeError("generator produced an invalid history: " + h)
        if mo != so:
            # the theorem says this cannot happen; it would mean driver and proof talk about different models
            ctx.report("model-vs-spec:" + h, "Lean model and Lean snapshot spec disagree on history %r" % h,
                       {"history": h, "model": mo, "spec": so}, no_input=True)
            bad += 1
        if i != so:
            ops = h.split()
            iw, sw = i.split(), so.split()
            n = next((j for j in range(len(ops)) if j >= len(iw) or iw[j] != sw[j]), len(ops) - 1)
            short = " ".join(ops[:n + 1])
            ctx.report("history:" + short,
                       "after history [%s] the real VersionedMap shows %s but the contents recorded for that revision are %s"
                       % (short, iw[n] if n < len(iw) else i, sw[n]),
                       {"component": "vmap", "history": short, "impl": " ".join(iw[:n + 1]), "spec": " ".join(sw[:n + 1])})
            bad += 1
            if bad >= 3:
                break
    return bad


def run_cases(ctx, hist, flavour):
    text = "\n".join(hist) + "\n"
    rc, out, err = sh([build.psyh(flavour), "vmap"], input=text, timeout=3000)
    if rc != 0:
        raise RuntimeError("psyh vmap (%s) exited with %s: %s" % (flavour, rc, err[-1500:]))
    impl = out.split("\n")[:-1]
    model = leanb.model("vmap", text)
    if len(impl) != len(hist) or len(model) != len(hist):
        raise RuntimeError("line count mismatch impl=%d model=%d cases=%d" % (len(impl), len(model), len(hist)))
    return impl, model


def run(ctx):
    proved = stages.lean_stage(ctx, "PsycheModel.Props.C20")
    stages.cxx_stage(ctx, "ndebug")
    maxlen = 5 if ctx.quick else 6
    hist = enum_histories(maxlen)
    seen = set(hist)
    hist += [h for h in enum_histories(maxlen + 1, (1, 2), (10, 11)) if h not in seen]
    nex = len(hist)
    nrand = 1000 if ctx.quick else 5000
    hist += [random_history(ctx.rng, ctx.rng.randrange(8, 200)) for _ in range(nrand)]
    if not ctx.quick:
        # length 7, sampled uniformly from the enumeration tree (full space ~8.6M)
        hist += [random_history(ctx.rng, 7) for _ in range(200000)]
    impl, model = run_cases(ctx, hist, "ndebug")
    bad = compare(ctx, hist, impl, model)
    if not ctx.quick:
        stages.cxx_stage(ctx, "asan")
        sub = hist[:20000] + hist[nex:nex + 500]
        i2, m2 = run_cases(ctx, sub, "asan")
        bad += compare(ctx, sub, i2, m2)
    distinct = len(set(hist))
    branching = sum(1 for h in set(hist) if _branches(h))
    ctx.cov.update({
        "evaluations": len(hist), "distinct_nontrivial": branching,
        "traces_validated_against_impl": len(hist),
        "exhaustive": True,
        "rule": "all valid histories of 1..%d ops over keys {1,2,3} x values {10,11}, and of 1..%d+1 ops over keys {1,2} x values {10,11}, with switches to every existing revision (exhaustive, %d), plus %d seeded random histories of length 8..200; non-trivial = distinct histories that insert after switching back (create a branch) and later switch again"
                % (maxlen, maxlen, nex, len(hist) - nex),
        "samples": [hist[nex // 2], hist[nex - 1], hist[nex][:200]],
    })
    ctx.notes["distinct_histories"] = distinct
    ctx.notes["disagreements"] = bad
    ctx.assumptions += ["std::unordered_map behaves as a finite map", "uint32_t revision counter does not wrap (Nat in the model)",
                        "switches name existing revisions (the property's 'any existing revision'); behaviour on unknown revision numbers is outside the statement"]
    if not proved and not ctx.violations:
        ctx.report("lean:C20", getattr(ctx, "lean_failure", "Lean obligations not discharged"),
                   {"theorem_or_module": "PsycheModel.Props.C20", "detail": getattr(ctx, "lean_failure", "")}, no_input=True)


def _branches(h):
    ops = h.split()
    seen_switch_then_ins = False
    for a, b in zip(ops, ops[1:]):
        if a[0] == "s" and b[0] == "i":
            seen_switch_then_ins = True
        elif seen_switch_then_ins and b[0] == "s":
            return True
    return False


def replay(ctx, rec):
    stages.cxx_stage(ctx, "ndebug")
    from ..leanb import lake_build
    lake_build(["psymodel"])
    h = rec["replay"]["history"]
    impl, model = run_cases(ctx, [h], "ndebug")
    print("history:", h)
    print("impl   :", impl[0])
    print("spec   :", model[0].split(" S ")[1])
    bad = compare(ctx, [h], impl, model)
    ctx.cov.update({"evaluations": 1, "distinct_nontrivial": 0, "samples": [h]})
    return ctx.finish()
