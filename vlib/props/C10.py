"""C10 — Identifiers resolve to the innermost visible declaration of their name space.

Proof: lean/PsycheModel/Props/C10.lean over PsycheModel/Scopes.lean (model of Scope + the binder's push/pop/stash
protocol): at every use the chain of scopes from the recorded scope is C's environment (any nesting, any number of
functions, callbacks' parameter scopes), the stack is restored, and the answer given afterwards equals C's whenever no
enclosing scope declares the name after the use (the stated hypothesis; its failure is the known finding).
Tie (H): the model and the real binder + Scope::searchForDeclaration answer the same queries at every probe of
generated programs.  Oracle: gen/scopegen.py keeps C's own environment while it prints the program."""
import collections, random, re, sys
from .. import stages, leanb
from ..common import ROOT, sh
sys.path.insert(0, ROOT)
from gen.scopegen import ScopeGen, NS


def parse_impl(line):
    """-> (list of (use line, {query: decl line | None}), diags)"""
    body, _, diags = line.partition(" | diags=")
    uses = []
    if body.strip() != "-":
        for u in body.split(" ; "):
            u = u.strip()
            head, _, rest = u.partition(":")
            env = {}
            if rest != "no-scope":
                for q in rest.split(","):
                    k, _, v = q.partition("=")
                    env[k] = None if v == "-" else (v if v == "?" else int(v))
            uses.append((int(head[1:]), env))
    return uses, diags.strip()


def parse_model(part, g):
    out = []
    part = part.strip()
    if not part:
        return out
    for u in part.split(" ; "):
        env = {}
        for q in u.strip().split(","):
            k, _, v = q.partition("=")
            ns, n = k.split(".")
            key = "%s:a%s" % ("otm"[int(ns)], n)
            env[key] = None if v == "-" else g.decl_lines[int(v)]
        out.append(env)
    return out


HAND = [
    # (text, expectations [(probe line, {key: line})]) — the classic cases, independent of the generator
    ("int PROBE;\nint a0;\nvoid f(\n int a1\n)\n{\n PROBE;\n {\n  int a0;\n  PROBE;\n }\n PROBE;\n}\nvoid g(void)\n{\n PROBE;\n}\n",
     [(7, {"o:a0": 2, "o:a1": 4}), (10, {"o:a0": 9, "o:a1": 4}), (12, {"o:a0": 2, "o:a1": 4}), (16, {"o:a0": 2, "o:a1": None})]),
    ("int PROBE;\nint a1;\nint a0(\n int (*a2)(\n  int a1\n ),\n int a3\n)\n{\n PROBE;\n}\n",
     [(10, {"o:a1": 2, "o:a2": 4, "o:a3": 7, "o:a0": 3})]),
    ("int PROBE;\nint a1;\nint (*a0(\n int a2\n))(\n int a1\n)\n{\n PROBE;\n}\n",
     [(9, {"o:a1": 2, "o:a2": 4, "o:a0": 3})]),
    ("int PROBE;\nstruct a0 { int a1; };\nint a0;\nvoid f(void)\n{\n struct a0;\n PROBE;\n {\n  union a0 { int a0; };\n  PROBE;\n }\n for (int a1 = 0; ; )\n {\n  PROBE;\n }\n PROBE;\n}\n",
     [(7, {"o:a0": 3, "t:a0": 6, "o:a1": None, "t:a1": None}), (10, {"o:a0": 3, "t:a0": 9}), (14, {"o:a1": 12, "t:a0": 6}), (16, {"o:a1": None, "t:a0": 6})]),
]


def run(ctx):
    proved = stages.lean_stage(ctx, "PsycheModel.Props.C10")
    stages.cxx_stage(ctx, "ndebug")
    rng = ctx.rng
    n = 1200 if ctx.quick else 20000
    gens = []
    for i in range(n):
        stream = "late" if i % 6 == 4 else "enum" if i % 6 == 5 else "main"
        g = ScopeGen(random.Random(rng.randrange(1 << 30)), names=3 + i % 4, maxdepth=2 + i % 4, late=stream == "late", enums=stream == "enum",
                     size=15 + (i * 7) % 60)
        text = g.program()
        gens.append((stream, g, text))
    ngcc = nbad = 0
    for stream, g, text in gens[:: max(1, len(gens) // (50 if ctx.quick else 300))]:
        rc, _, err = sh(["gcc", "-std=c11", "-fsyntax-only", "-w", "-x", "c", "-"], input=text)
        ngcc += 1
        nbad += rc != 0
    lines = ["1 %s %s" % (",".join(sorted({k for _, e in exp for k in e})), t.encode().hex()) for t, exp in HAND]
    lines += ["1 %s %s" % (g.queries(), t.encode().hex()) for _, g, t in gens]
    impl = stages.run_harness(ctx, "scopes", lines)
    model = leanb.model("scopes", "\n".join("%s | %s" % (g.model_queries(), " ".join(g.items)) for _, g, _ in gens) + "\n")
    stats = collections.Counter()
    nviol = ncorr = nprobe = nknown_late = nknown_enum = 0
    # hand cases
    for (text, exp), line, ans in zip(HAND, lines, impl):
        uses, diags = parse_impl(ans) if not ans.startswith(("CRASH", "HANG", "no-unit", "bad")) else ([], ans)
        got = dict(uses)
        for pl, env in exp:
            for k, want in env.items():
                have = got.get(pl, {}).get(k, "absent")
                if have != want:
                    nviol += 1
                    ctx.report("hand:%d:%s" % (pl, k), "program %r: at the use on line %d, %s resolves to the declaration on line %s; C selects the one on line %s"
                               % (text, pl, k, have, want), {"component": "scopes", "case": line, "text": text})
    for (stream, g, text), line, ans, mod in zip(gens, lines[len(HAND):], impl[len(HAND):], model):
        stats.update(g.stats)
        if ans.startswith(("CRASH", "HANG", "no-unit", "bad")):
            nviol += 1
            if nviol <= 3:
                ctx.report("crash:" + text[-60:], "no answer for a valid generated program: %s" % ans[:300], {"component": "scopes", "case": line, "text": text})
            continue
        uses, diags = parse_impl(ans)
        if len(uses) != len(g.probes) or [u for u, _ in uses] != [p for p, _ in g.probes]:
            nviol += 1
            if nviol <= 3:
                ctx.report("uses:" + text[-60:], "the identifier uses with a recorded scope (%s) are not the program's probes (%s)" % ([u for u, _ in uses][:8], [p for p, _ in g.probes][:8]),
                           {"component": "scopes", "case": line, "text": text})
            continue
        bad = None
        for pi, ((pl, got), (_, want)) in enumerate(zip(uses, g.probes)):
            nprobe += 1
            for k, w in want.items():
                h = got.get(k, "absent")
                if h == w:
                    continue
                # the two recorded findings, recognised exactly: the answer is what an order-insensitive lookup over the same scope
                # structure gives (late declaration), resp. what C gives once enumeration constants are left out
                if h == g.order_insensitive(pi, k):
                    if g.probe_aux[pi][0][k] == h:
                        nknown_enum += 1
                        ctx.report("enumerator-namespace", "an enumeration constant is not found as an ordinary identifier (enumerators are bound in the Members name space), e.g. %s at line %d"
                                   % (k, pl), {})
                    else:
                        nknown_late += 1
                        ctx.report("late-declaration", "a declaration that follows the use in an enclosing block is found (Scope lookup ignores declaration order), e.g. line %d resolves %s to line %s; C: %s"
                                   % (pl, k, h, w), {})
                    continue
                bad = bad or (pl, k, h, w)
        if bad:
            nviol += 1
            if nviol <= 3:
                pl, k, h, w = bad
                ctx.report("scope:" + text[-80:], "at the use on line %d, %s resolves to the declaration on line %s; C's scoping selects line %s.  Program:\n%s" % (pl, k, h, w, text),
                           {"component": "scopes", "case": line, "text": text, "probe_line": pl, "key": k, "impl": h, "c": w})
            continue
        # correspondence: the model's final answers (order-insensitive, enumerators as the front end binds them) = the implementation's
        if not g.model_ok:
            continue
        if not mod.startswith("model="):
            raise RuntimeError("model driver answer not understood: %r" % mod[:300])
        mpart, cpart, tail = mod[6:].split(" | ")
        menvs = parse_model(mpart, g)
        if "ok=true" not in tail or "stackLeft=0" not in tail or len(menvs) != len(uses):
            raise RuntimeError("model run not normal: %s (uses %d vs %d)" % (tail, len(menvs), len(uses)))
        for (pl, got), menv in zip(uses, menvs):
            dis = [(k, got.get(k), menv.get(k)) for k in menv if k in got and got[k] != menv[k]]
            if dis:
                ncorr += 1
                if ncorr <= 3:
                    ctx.report("corr:" + text[-80:], "binder/Scope and the Lean model disagree at line %d: %s (impl, model).  Program:\n%s" % (pl, dis[:4], text),
                               {"component": "scopes", "case": line, "text": text}, no_input=True)
                break
        # the model's C side against the generator's environment (validates the Lean spec itself)
        cenvs = parse_model(cpart[3:] if cpart.startswith("c= ") else cpart, g)
        for (pl, want), cenv in zip(g.probes, cenvs):
            dis = [(k, want[k], cenv.get(k)) for k in want if want[k] not in g.enum_lines and cenv.get(k) != want[k]]
            if dis:
                raise RuntimeError("the Lean C-scoping spec and the generator's environment disagree at line %d: %s\n%s" % (pl, dis[:4], text))
    ctx.cov.update({
        "evaluations": len(lines), "traces_validated_against_impl": len(lines), "distinct_nontrivial": nprobe, "exhaustive": False,
        "rule": "generated programs over 3-6 names reused across ordinary/tag/member name spaces and file/prototype/block scopes: variables, typedefs, functions (declarations, definitions, callbacks with named parameters, functions returning function pointers), struct/union/enum tags (definitions and forward declarations), fields, for-loops with declarations, blocks nested to depth 2-5, several functions per unit; at every probe the recorded scope is searched for every (name space, name) and compared with C's environment kept by the generator and with the Lean model; streams: main (declarations precede the uses that look through their block), late (free order: exhibits the order-insensitivity finding), enum (enumeration constants)",
        "samples": [gens[0][2][:400], gens[-1][2][:400]],
    })
    ctx.notes.update({"probes_checked": nprobe, "oracle_violations": nviol, "model_disagreements": ncorr, "known_late_declaration_hits": nknown_late,
                      "known_enumerator_hits": nknown_enum, "generator_stats": dict(stats), "gcc_sample": {"checked": ngcc, "rejected": nbad}})
    ctx.assumptions += ["a declaration is identified by the line of its declaring node (one declaration per line in generated programs)",
                        "member names are looked up through the struct type in C, not through scopes; the Members name space is only checked for not leaking into the other two",
                        "the scope of a declaration starts after its declarator in C; the front end's lookup is order-insensitive (known finding 'late-declaration'), which the main stream avoids by construction",
                        "block-scope function declarations use two reserved names (linkage rules of 6.2.2 forbid clashes with other entities)"]
    if nbad:
        raise RuntimeError("the scope generator produced %d/%d programs gcc rejects" % (nbad, ngcc))
    if not proved:
        stages.lean_unproved(ctx, "C10", "PsycheModel.Props.C10")


def replay(ctx, rec):
    stages.cxx_stage(ctx, "ndebug")
    l = rec["replay"]["case"]
    out = stages.run_harness(ctx, "scopes", [l])[0]
    print("text:\n" + bytes.fromhex(l.split()[2]).decode("latin-1"))
    print("impl:", out.replace(" ; ", "\n      "))
    ctx.cov.update({"evaluations": 1, "samples": [l[:200]]})
    return ctx.finish()
