"""C01 — Syntax analysis is total and memory-safe on arbitrary bytes.

Proof (the part that is logic): lean/PsycheModel/Props/C01.lean — cursor never passes the EOF sentinel under any
sequence of parser steps, recovery loops (stop sets regenerated from Parser.cpp) terminate at a stop token, look-ahead
scans stay in bounds, the member loop advances, the shared nesting counter bounds depth.  Lexer cursor/termination:
see C05.  Tie: (1) the protocol model <-> the real Parser's consume/match/skipTo/ignore* on lexed token vectors;
(2) what no model can show (object lifetime, null dereference, stack, time) is exercised by running generated valid /
truncated / mutated / invalid-UTF-8 / unterminated / deeply nested inputs through parse + full traversal under all
option families, syntax categories, NDEBUG and assert builds, and ASan+UBSan; any crash, hang, sanitizer report or
undeclared exception is a failing input."""
import itertools, random, re, sys
from .. import stages, leanb
from ..common import ROOT
sys.path.insert(0, ROOT)
from gen.cgen import Gen, mutate_tokens, mutate_bytes

TOKPOOL = [";", "}", "{", ",", "x", "*", "typedef", "struct", "enum", "int", "(", ")", "=", "1", "static", "_Static_assert", "union", "extern", "[", "]", ":", "if", "return", "\"s\"", "...", "inline", "__asm__", "register", "auto", "_Noreturn", "_Thread_local"]
OPS = ["c", "i:0", "i:1", "i:2", "i:3", "s:SemicolonToken", "s:CloseParenToken", "s:CloseBraceToken", "m:SemicolonToken", "m:IdentifierToken", "m:CloseBraceToken", "j:1", "j:3"]


def rand_opts(rng):
    bits = "".join(rng.choice("01d") for _ in range(31))
    return "%d,%d,%d,%d,%s" % (rng.randrange(4), rng.random() < 0.9, rng.randrange(3), rng.randrange(4), bits)


def protocol_cases(ctx):
    rng = ctx.rng
    texts = [" ".join(rng.choice(TOKPOOL) for _ in range(rng.randrange(0, 12))) for _ in range(60 if ctx.quick else 400)]
    texts += ["", ";", "}", "enum E { K = 2 4 } ; union U { int f; };", "int x = ; struct { int } ; typedef", "a , b * c ; }"]
    cases = []
    small = OPS[:9]
    for t in texts[:12]:
        for n in (1, 2, 3):
            for ops in itertools.product(small, repeat=n):
                cases.append((t, list(ops)))
    for t in texts:
        for _ in range(6):
            cases.append((t, [rng.choice(OPS) for _ in range(rng.randrange(1, 14))]))
    return cases


def robustness_inputs(ctx, n):
    rng = ctx.rng
    out = []
    progs = []
    for i in range(max(20, n // 6)):
        g = Gen(random.Random(rng.randrange(1 << 30)), gnu=i % 3 == 0, kr=i % 4 == 0)
        progs.append(g.program())
    for p in progs:
        out.append(("valid", p.encode()))
    from gen.snippets import corpus
    from gen.declforms import corpus as declforms
    from gen.snippets import extension_corpus
    snippets = [t for _, t in corpus() if 'R"' not in t] + [l for _, l in declforms()[::7]] + [t for _, t in extension_corpus()] * 3
    while len(out) < n:
        p = rng.choice(progs)
        k = rng.randrange(11)
        if k >= 9:
            # the syntactic corpus (every node kind, adjacency and attribute forms, declaration forms): as written and token-mutated
            t = rng.choice(snippets)
            out.append(("corpus-mutated", mutate_tokens(rng, t, rng.randrange(0, 4)).encode()))
            continue
        if k == 0:
            out.append(("truncated", p.encode()[:rng.randrange(len(p) + 1)]))
        elif k in (1, 2):
            out.append(("token-mutated", mutate_tokens(rng, p, rng.randrange(1, 6)).encode()))
        elif k in (3, 4):
            out.append(("byte-mutated", mutate_bytes(rng, p, rng.randrange(1, 6))))
        elif k == 5:
            b = p.encode()
            cut = rng.randrange(len(b) + 1)
            out.append(("unterminated", b[:cut] + rng.choice([b"/*", b"\"abc", b"'a", b"//x\\", b"R\"x(", b"L\"", b"u8\"\\", b"'\\", b"\"\\", b"/* * /", b"0x", b"1e+", b"1.", b"\\", b"??/", b"%:%", b"<:", b"#", b"# 1 \"", b"#line"])))
        elif k == 6:
            b = bytearray(p.encode())
            for _ in range(rng.randrange(1, 4)):
                b.insert(rng.randrange(len(b) + 1), rng.choice([0x80, 0xbf, 0xc0, 0xc3, 0xe4, 0xed, 0xf0, 0xf4, 0xf8, 0xfc, 0xfe, 0xff]))
            if rng.random() < 0.5:
                b.append(rng.choice([0xc3, 0xe4, 0xf0, 0xff, 0xfe]))
            out.append(("invalid-utf8", bytes(b)))
        elif k == 7:
            d = rng.choice([5, 50, 99, 300, 900])
            form = rng.randrange(5)
            if form == 0: t = "void f(){ x = " + "(" * d + "1" + ")" * d + "; }"
            elif form == 1: d = min(d, 99); t = "void f()" + "{" * d + "}" * d
            elif form == 2: d = min(d, 300); t = "int " + "*" * d + "p; int x = " + "-" * d + "1; int " + "(" * d + "y" + ")" * d + ";"
            elif form == 3: d = min(d, 99); t = "void f(){ " + "if (1) { " * d + ";" + " }" * d + " }"
            else: d = min(d, 300); t = "int a" + "[1]" * d + "; int z = " + "{" * d + "1" + "}" * d + ";"
            if rng.random() < 0.3:
                t = t[:rng.randrange(len(t))]
            out.append(("nested", t.encode()))
        else:
            toks = [rng.choice(TOKPOOL + ["a", "b", "T", "(", ")", "sizeof", "+", "-", "&", "?", "->", "++", "case", "default", "while", "for", "do", "else", "goto", "switch", "_Generic", "__attribute__", "typeof", "0x1F", "'c'"]) for _ in range(rng.randrange(1, 40))]
            out.append(("token-soup", " ".join(toks).encode()))
    # directive and expansion-marker lines (the lexer interprets them itself)
    DIRS = ["#", "# 1", "# 1 \"f.c\"", "#line 7", "#line 7 \"g.c\" 3", "# line", "#include <x.h>", "#define A(x) x", "# expansion", "# expansion begin", "# expansion begin 1 , 2",
            "# expansion begin 1 , 2 ~ 3 4 : 5", "# expansion begin 1 , 2 foo", "# expansion begin 1 , 2 ~", "# expansion begin 1 , 2 ~ 99999999999", "# expansion begin 1 , 2 7 :",
            "# expansion begin 1 , 2 ~ 0xFFFFFFFFFFFFFFFF 3 : 4 ~ 2", "# expansion end", "# expansion other", "%: 5", "??= 5"]
    # numbers at and beyond the limits of every integer type, wherever the front end reads a number itself (line markers, #line, expansion
    # markers) and wherever a constant may stand: a conversion that saturates is fine, one that throws or wraps into an index is not
    out[:0] = [("extreme-number", t.encode()) for t in extreme_number_inputs()]
    for i in range(len(out)):
        if rng.random() < 0.12:
            kind, data = out[i]
            lines = data.split(b"\n")
            for _ in range(rng.randrange(1, 4)):
                d = rng.choice(DIRS).encode()
                if rng.random() < 0.3:
                    d = d[:rng.randrange(len(d) + 1)]
                lines.insert(rng.randrange(len(lines) + 1), d)
            out[i] = (kind + "+directive", b"\n".join(lines))
    # an ambiguous statement makes the disambiguation pass walk the whole (possibly damaged) tree: plant one in a third of the inputs
    AMBIG = [b" x * y ; ", b" (x) * (y) ; ", b" x ( y ) ; ", b" sizeof ( x ) ; ", b" (x) - (y) ; ", b" (x) & (y) ; ", b" (x)(y) ; ", b" _Alignof ( x ) ; "]
    for i, (kind, data) in enumerate(out):
        if rng.random() < 0.33:
            braces = [j for j in range(len(data)) if data[j:j + 1] == b"{"]
            if braces:
                j = rng.choice(braces) + 1
                out[i] = (kind + "+ambig", data[:j] + rng.choice(AMBIG) + data[j:])
    return out


EXTREME_NUMBERS = ["0", "2147483647", "2147483648", "4294967295", "4294967296", "9223372036854775807", "9223372036854775808", "18446744073709551615",
                   "18446744073709551616", "18446744073709551617", "99999999999999999999", "340282366920938463463374607431768211456", "1" + "0" * 400,
                   "0xFFFFFFFFFFFFFFFF", "0x10000000000000000", "0x" + "F" * 40, "01777777777777777777777", "02000000000000000000000", "0" + "7" * 60,
                   "18446744073709551616u", "18446744073709551616ULL", "1e400", "1e-400", "0x1p99999", "1.5", "1e", "0x", "08", "1__2", "-1", "+5"]


def extreme_number_inputs():
    out = []
    for n in EXTREME_NUMBERS:
        for form in ("# %s \"a.c\"\nint x;\n", "int y;\n# %s \"a.c\" 1\nint x = ;\n", "#line %s\nint x;\n", "int y;\n#line %s \"b.c\"\nint x = ;\n", "# %s\n",
                     "# expansion begin %s , 2 ~ 3 4 : 5\nint x;\n", "# expansion begin 1 , %s ~ 3 4 : 5\nint x;\n", "# expansion begin 1 , 2 ~ %s 4 : 5\nint x;\n",
                     "# expansion begin 1 , 2 ~ 3 %s : 5\nint x;\n", "# expansion begin 1 , 2 ~ 3 4 : %s\nint x = ;\n", "# expansion begin 1 , 2 %s : 5\nint x;\n",
                     "int x = %s;\n", "int a[%s];\n", "enum e { K = %s };\n", "struct s { int f : %s; };\n", "void f(void) { switch (1) { case %s: ; } x = a[%s] + %s; }\n",
                     "_Static_assert(%s, \"m\");\n", "int a[] = { [%s] = 1 };\n", "_Alignas(%s) int v;\n", "int x = '\\%s';\n"):
            out.append(form.replace("%s", n))
    return out


def prefix_family(ctx):
    """Systematic truncation: EVERY token-boundary prefix of a few programs (prototype and K&R function definitions among them),
    so that each look-ahead scan of the parser is cut at each of its positions, under the option sets that enable the scans
    (K&R-style definitions are off by default).  Seeded change C01-b (look-ahead one token past the end-of-file token when a
    parameter list is cut) needs exactly this; the random truncations of the sweeps hit it too rarely."""
    rng = ctx.rng
    progs = ["int f(a, b) int a; char *b; { return a; } int g(int (*h)(int, char), ...) { return h(1, 2); } struct s { int x : 3; } v = { .x = 1 }; void k(x, y, z) double x, y; { }",
             "typedef int T; T (*fp[3])(T a, T (b), void (*)(void)); enum e { A = sizeof(T), B } ee; _Static_assert(1, \"m\"); void m(void) { for (int i = 0; i < 3; ++i) { T x = (T) i; x = _Generic(x, int: 1, default: 2); } }"]
    for i in range(6 if ctx.quick else 30):
        progs.append(Gen(random.Random(rng.randrange(1 << 30)), gnu=i % 2 == 0, kr=True).program())
    out = []
    for p in progs:
        ends = [m.end() for m in re.finditer(r"[A-Za-z_0-9]+|\"[^\"]*\"|\S", p)]
        if len(ends) > 700:
            ends = ends[:350] + sorted(rng.sample(ends[350:], 350))
        for e in ends:
            out.append(p[:e].encode())
    return out


def deep_chains():
    """(name, syntax category, depth -> text): one recursive rule of the parser nested `depth` times"""
    return [
        ("cast", "a", lambda n: "int v = " + "(int)" * n + " 1;"),
        ("assignment", "a", lambda n: "void f(void){ " + "a=" * n + " 1; }"),
        ("prefix-minus", "e", lambda n: "- " * n + " 1"),
        ("prefix-increment", "e", lambda n: "++ " * n + " a"),
        ("address-of", "e", lambda n: "&" * n + "a"),
        ("sizeof", "e", lambda n: "sizeof " * n + " a"),
        ("extension", "e", lambda n: "__extension__ " * n + "1"),
        ("conditional", "e", lambda n: "a?a:" * n + " 1"),
        ("conditional-middle", "e", lambda n: "a ? " * n + "1" + " : 2" * n),
        ("binary-flat", "e", lambda n: "a+" * n + " 1"),
        ("comma", "e", lambda n: "a," * n + " 1"),
        ("parentheses", "e", lambda n: "(" * n + "1" + ")" * n),
        ("call-arguments", "e", lambda n: "f(" * n + "1" + ")" * n),
        ("subscript", "e", lambda n: "a[" * n + "1" + "]" * n),
        ("generic-selection", "e", lambda n: "_Generic(a, default: " * n + "1" + ")" * n),
        ("compound-literal", "e", lambda n: "(int){" * n + "1" + "}" * n),
        ("statement-expression", "e", lambda n: "({ " * n + "1;" + " })" * n),
        ("va_arg", "e", lambda n: "__builtin_va_arg(" * n + "a" + ", int)" * n),
        ("if", "s", lambda n: "if(a) " * n + " ;"),
        ("else-if", "s", lambda n: "if(a) ; else " * n + " ;"),
        ("if-else-nested", "s", lambda n: "if(a) " * n + ";" + " else ;" * n),
        ("label", "s", lambda n: "l: " * n + " ;"),
        ("case", "s", lambda n: "switch(a) { " + "case 1: " * n + " ; }"),
        ("while", "s", lambda n: "while(a) " * n + " ;"),
        ("do", "s", lambda n: "do " * n + ";" + " while(a);" * n),
        ("for", "s", lambda n: "for(;;) " * n + ";"),
        ("switch", "s", lambda n: "switch(a) " * n + ";"),
        ("block", "s", lambda n: "{" * n + "}" * n),
        ("declarator-parentheses", "d", lambda n: "int " + "(" * n + "a" + ")" * n + ";"),
        ("pointer", "d", lambda n: "int " + "*" * n + "a;"),
        ("qualified-pointer", "d", lambda n: "int " + "* const " * n + "a;"),
        ("array-suffix", "d", lambda n: "int a" + "[1]" * n + ";"),
        ("function-suffix", "d", lambda n: "int a" + "()" * n + ";"),
        ("function-pointer", "d", lambda n: "int " + "(*" * n + "f" + ")(void)" * n + ";"),
        ("parameter", "d", lambda n: "void f(" + "int (*p)(" * n + "void" + ")" * n + ");"),
        ("initializer-braces", "d", lambda n: "int v = " + "{" * n + "1" + "}" * n + ";"),
        ("struct", "d", lambda n: "struct s { int a; " * n + " m; }" * n + ";"),
        ("type-name", "d", lambda n: "int v = sizeof(int " + "(*" * n + ")" * n + ");"),
        ("array-size-in-type-name", "d", lambda n: "void f(int a[" + "sizeof(int[" * n + "1" + "])" * n + "]);"),
        ("atomic-specifier", "d", lambda n: "_Atomic(" * n + "int" + ")" * n + " v;"),
        ("specifiers", "d", lambda n: "const " * n + "int a;"),
        ("attributes", "d", lambda n: "int a " + "__attribute__((x)) " * n + ";"),
        ("string-concatenation", "d", lambda n: "char *s = " + "\"a\" " * n + ";"),
        ("declarator-list", "d", lambda n: "int " + "a, " * n + "b;"),
        ("enumerators", "d", lambda n: "enum e { " + "A, " * n + "B };"),
        ("members", "d", lambda n: "struct s { " + "int a; " * n + "};"),
        ("parameters", "d", lambda n: "void f(" + "int, " * n + "int);"),
        ("designators", "d", lambda n: "int v[] = { " + "[0]" * n + " = 1 };"),
        ("postfix-chain", "e", lambda n: "a" + "++" * n),
        ("member-chain", "e", lambda n: "a" + ".m" * n),
        ("call-chain", "e", lambda n: "a" + "()" * n),
    ]


def classify(kind, cat, answer):
    """None = fine; else a description of the failure."""
    if answer == "SKIPPED":
        return None
    if answer.startswith("CRASH"):
        return "terminated abnormally: " + answer[6:400]
    if answer.startswith("HANG"):
        return "did not return: " + answer
    if answer.startswith("exception"):
        if "maximum depth of" in answer:
            return None
        return "raised an undeclared exception: " + answer[:200]
    if cat == "A" and "; built TranslationUnit " not in answer:
        return "whole-unit parse did not return a tree rooted at a translation unit: " + answer[:160]
    if cat == "a" and "; N0 TranslationUnit " not in answer:
        return "whole-unit parse did not return a tree rooted at a translation unit: " + answer[:160]
    return None


def shrink(ctx, opt, cat, data, flavour, budget=60):
    def fails(b):
        a = stages.run_harness(ctx, "tree", ["%s %s %s" % (opt, cat, (b or b" ").hex())], flavour=flavour, per_case_s=15)[0]
        return classify("x", cat, a) is not None
    n, tries = 2, 0
    while len(data) >= 2 and tries < budget:
        chunk = max(1, len(data) // n)
        reduced = False
        for i in range(0, len(data), chunk):
            cand = data[:i] + data[i + chunk:]
            tries += 1
            if cand and fails(cand):
                data, n, reduced = cand, max(n - 1, 2), True
                break
            if tries >= budget:
                break
        if not reduced:
            if chunk == 1:
                break
            n = min(len(data), n * 2)
    return data


def run(ctx):
    proved = stages.lean_stage(ctx, "PsycheModel.Props.C01")
    stages.cxx_stage(ctx, "ndebug")
    rng = ctx.rng
    # ---- 1. protocol model <-> real Parser
    pc = protocol_cases(ctx)
    plines = ["%s | %s" % ((t.encode() or b" ").hex(), " ".join(ops)) for t, ops in pc]
    impl = stages.run_harness(ctx, "recovery", plines)
    mlines = []
    for i in impl:
        if i.startswith(("CRASH", "HANG")):
            mlines.append("EndOfFile | c")
        else:
            mlines.append(i.split(" | C")[0][2:] + " | " + plines[len(mlines)].split(" | ")[1])
    model = leanb.model("protocol", "\n".join(mlines) + "\n")
    nviol = ncorr = 0
    for (t, ops), i, m in zip(pc, impl, model):
        if i.startswith(("CRASH", "HANG")):
            if nviol < 3:
                ctx.report("protocol-crash:" + t[:60], "parser cursor operations %s on tokens of %r: %s" % (ops, t, i[:300]), {"component": "recovery", "text": t, "ops": ops})
            nviol += 1
            continue
        kinds = i.split(" | C")[0].split()[1:]
        cur = i.split(" | C")[1].split()
        if any(int(c) > len(kinds) for c in cur):
            if nviol < 3:
                ctx.report("protocol-eof:" + t[:60], "after operations %s on %r the cursor (%s) is beyond the end-of-file token (index %d)" % (ops, t, cur, len(kinds)),
                           {"component": "recovery", "text": t, "ops": ops, "impl": i})
            nviol += 1
        elif " ".join(cur) != m.strip():
            if ncorr < 3:
                ctx.report("corr-protocol:" + t[:60], "cursor trace of the real parser %s differs from the Lean protocol model %s for %s on %r" % (cur, m.split(), ops, t),
                           {"component": "recovery", "text": t, "ops": ops, "impl": i, "model": m}, no_input=True)
            ncorr += 1
    # ---- 2. robustness sweeps
    plan = [("ndebug", 2500 if ctx.quick else 40000), ("assert", 800 if ctx.quick else 15000), ("asan", 500 if ctx.quick else 8000)]
    if not ctx.quick:
        plan.append(("asan-assert", 3000))
    total = 0
    failures = []
    kinds_count = {}
    for flavour, n in plan:
        if len(failures) >= 3:
            ctx.log("enough failing inputs: the remaining sweeps are skipped")      # (hangs cost the per-case time limit each)
            break
        if flavour != "ndebug":
            stages.cxx_stage(ctx, flavour)
        ins = robustness_inputs(ctx, n)
        lines, metas = [], []
        for kind, data in ins:
            cat = rng.choice("aaaades")
            opt = rand_opts(rng) if rng.random() < 0.7 else "2,1,0,2," + "d" * 31
            lines.append("%s %s %s" % (opt, cat, (data or b" ").hex()))
            metas.append((kind, cat, opt, data))
            kinds_count[kind] = kinds_count.get(kind, 0) + 1
        answers = stages.run_harness(ctx, "tree", lines, flavour=flavour, per_case_s=30 if "asan" in flavour else 15, max_failures=10)
        total += sum(1 for a in answers if a != "SKIPPED")
        for (kind, cat, opt, data), a in zip(metas, answers):
            why = classify(kind, cat, a)
            if why:
                failures.append((flavour, kind, cat, opt, data, why))
        ctx.log("sweep %s: %d inputs, %d failures so far" % (flavour, len(lines), len(failures)))
    # ---- 3. every token-boundary prefix, with the optional look-ahead scans enabled
    pf = prefix_family(ctx) if len(failures) < 3 else []
    for opt in ("2,1,0,2," + "1" + "d" * 30, "3,1,0,2," + "1" * 31):
        lines = ["%s a %s" % (opt, (d or b" ").hex()) for d in pf]
        answers = stages.run_harness(ctx, "tree", lines, flavour="asan", per_case_s=30, max_failures=10)
        total += sum(1 for a in answers if a != "SKIPPED")
        for d, a in zip(pf, answers):
            why = classify("token-prefix", "a", a)
            if why:
                failures.append(("asan", "token-prefix", "a", opt, d, why))
    kinds_count["token-prefix"] = 2 * len(pf)
    # ---- 4. deep chains: every recursive rule of the parser nested far beyond any limit (100,000 levels; 3,000 under ASan, whose frames are
    # larger): the answer must be a tree or the declared nesting-limit error, never a stack overflow.  The tree is built and NOT walked by
    # the harness (category letter in upper case): a recursive walk of a deep tree would exhaust the harness's own stack.
    deep = deep_chains()
    for flavour, n in (("ndebug", 100000), ("assert", 100000), ("asan", 3000)):
        if len(failures) >= 3:
            break
        lines = ["%s %s %s" % ("2,1,0,2," + "d" * 31, cat.upper(), mk(n).encode().hex()) for _, cat, mk in deep]
        answers = stages.run_harness(ctx, "tree", lines, flavour=flavour, per_case_s=60, max_failures=10)
        total += sum(1 for a in answers if a != "SKIPPED")
        for (name, cat, mk), a in zip(deep, answers):
            why = classify("deep-chain", cat.upper(), a)
            if why:
                failures.append((flavour, "deep-chain:%s x %d" % (name, n), cat.upper(), "2,1,0,2," + "d" * 31, mk(n).encode(), why))
    kinds_count["deep-chain"] = 3 * len(deep)
    # ---- 5. nests of speculatively parsed constructs: the parser tries one reading, backtracks and parses the same tokens again, at every
    # level: the time is exponential in the depth.  Depth 9 must return at once; the depths at which the time limit is exceeded are the
    # recorded finding `exponential-backtracking:<construct>` (listed in known_findings.jsonl; any OTHER failure on these inputs is reported)
    spec = [("typeof", lambda n: "__typeof__(" * n + "int" + ")" * n + " v;", 26),
            ("alignas", lambda n: "_Alignas(" * n + "int" + ")" * n + " int v;", 26),
            ("sizeof-enum", lambda n: "enum e { " + "A = sizeof(enum { " * n + "B" + " })" * n + " };", 30),
            ("sizeof-array-of-name", lambda n: "int v = " + "sizeof(a[" * n + "1" + "])" * n + ";", 20)]
    lines = ["%s A %s" % ("2,1,0,2," + "d" * 31, mk(9).encode().hex()) for _, mk, _ in spec]
    for (name, mk, _), a in zip(spec, stages.run_harness(ctx, "tree", lines, flavour="ndebug", per_case_s=15)):
        why = classify("speculative-nest", "A", a)
        if why:
            failures.append(("ndebug", "speculative-nest:%s x 9" % name, "A", "2,1,0,2," + "d" * 31, mk(9).encode(), why))
    lines = ["%s A %s" % ("2,1,0,2," + "d" * 31, mk(n).encode().hex()) for _, mk, n in spec]
    for (name, mk, n), a, l in zip(spec, stages.run_harness(ctx, "tree", lines, flavour="ndebug", per_case_s=6), lines):
        why = classify("speculative-nest", "A", a)
        if why and a.startswith(("HANG", "CRASH")):
            # time and memory both grow exponentially (the nodes of abandoned readings stay in the pool): whichever limit is met first - 6 s or the
            # harness's 4 GB address-space limit (then an allocation fails) - it is the same recorded finding for this input
            ctx.report("exponential-backtracking:" + name, "%r nested %d times (%d bytes): SyntaxTree::parseText did not return within 6 s / 4 GB (time and memory triple with every level)" % (mk(1), n, len(mk(n))),
                       {"component": "tree", "flavour": "ndebug", "case": l})
        elif why:
            failures.append(("ndebug", "speculative-nest:%s x %d" % (name, n), "A", "2,1,0,2," + "d" * 31, mk(n).encode(), why))
    total += 2 * len(spec)
    kinds_count["speculative-nest"] = 2 * len(spec)
    ctx.log("deep chains: %d rules x 3 builds, %d failures so far" % (len(deep), len(failures)))
    ctx.log("token-prefix family: %d prefixes x 2 option sets, %d failures so far" % (len(pf), len(failures)))
    seen = set()
    for flavour, kind, cat, opt, data, why in failures:
        sig = re.sub(r"0x[0-9a-f]+|==\d+==|pc \S+|bp \S+|sp \S+", "", why)[:120]
        if sig in seen:
            continue
        seen.add(sig)
        small = shrink(ctx, opt, cat, data, flavour)
        ctx.report("robust:%s:%s" % (flavour, small[:40].hex()), "%s build, options %s, category %s, %s input %r: %s" % (flavour, opt, cat, kind, small[:200], why),
                   {"component": "tree", "flavour": flavour, "case": "%s %s %s" % (opt, cat, (small or b" ").hex()), "original_len": len(data)})
        if len(seen) >= 4:
            break
    ctx.cov.update({
        "evaluations": len(pc) + total, "distinct_nontrivial": len({(t, tuple(o)) for t, o in pc}) + total,
        "traces_validated_against_impl": len(pc), "exhaustive": False,
        "rule": "protocol: all sequences of 1..3 cursor operations over 9 operations on 12 token strings + seeded random sequences on ~70 more (real Parser vs Lean model, %d traces); robustness: %s inputs (an eighth with directive / expansion-marker lines inserted, a third of them with an ambiguous statement planted after a random brace so that the disambiguation pass walks the tree; valid, truncated at random offsets, token-mutated, byte-mutated, unterminated literal/comment/directive tails, invalid UTF-8 incl. truncated sequences at the end, nesting within the declared limits, 51 recursive rules nested 100,000 times (parse only), token soup, the syntactic corpus of C03/C14/C04 as written and token-mutated; plus EVERY token-boundary prefix of a few programs with K&R definitions and all extensions switched on, under ASan) x random ParseOptions (dialect, 31 switches, comment mode, disambiguation mode, keyword recognition) x syntax category x builds %s (the ASan builds with -D_GLIBCXX_ASSERTIONS: container accesses checked against size(), not capacity), each parsed, fully traversed and asked first/last token of every node; non-trivial = every robustness input counts (distinct random data)"
                % (len(pc), total, [f for f, _ in plan]),
        "samples": [plines[5], str(metas[0][3][:120]), str(metas[-1][3][:120])],
    })
    ctx.notes.update({"protocol_traces": len(pc), "robustness_inputs": total, "input_kinds": kinds_count, "failures": len(failures),
                      "protocol_violations": nviol, "protocol_correspondence_disagreements": ncorr})
    ctx.assumptions += ["lexer cursor bounds and termination are modelled under C05", "deep chains (each recursive rule nested 100,000 times; 3,000 under ASan) are parsed without the harness walking the tree: a recursive walk of a tree that deep (the harness's own, and the front end's lastToken()) needs more stack than the parse",
                        "object lifetime, null dereference, stack depth and running time are observed under sanitizers, not proved"]
    if not proved:
        stages.lean_unproved(ctx, "C01", "PsycheModel.Props.C01")


def replay(ctx, rec):
    r = rec["replay"]
    fl = r.get("flavour", "ndebug")
    stages.cxx_stage(ctx, fl)
    if r.get("component") == "recovery":
        line = "%s | %s" % ((r["text"].encode() or b" ").hex(), " ".join(r["ops"]))
        print(stages.run_harness(ctx, "recovery", [line], flavour=fl)[0])
    else:
        a = stages.run_harness(ctx, "tree", [r["case"]], flavour=fl, per_case_s=60)[0]
        print("input:", bytes.fromhex(r["case"].split()[2])[:500]); print("answer:", a[:1500])
        why = classify("x", r["case"].split()[1], a)
        if why:
            ctx.report("robust:replay", why, {"case": r["case"], "flavour": fl})
    ctx.cov.update({"evaluations": 1, "samples": [str(r)[:300]]})
    return ctx.finish()
