"""C16 — Reported positions track the text they refer to.

Proof: lean/PsycheModel/Props/C16.lean (all texts, offsets, k).  Tie: hand model (PsycheModel/Positions.lean)
<-> real SyntaxTree::computePosition / newDiagnostic / SyntaxToken::location on generated texts.
Oracle: the relational laws themselves, evaluated on the implementation: the same text with k line breaks /
k blanks / changed trailing text / more text before a line marker must move every reported position as stated."""
import re
from .. import stages

OPTS = "2,1,0,2," + "d" * 31
LINES = ["int x = ;", "int y;", "foo(1,", "  return a +;", "\tif (a", "int é = ;", "中 = 3 3;", "/* c */ int z", "int w; // c",
         "int q = 1 \\", "  + ;", "struct s { int", "} ;", "x y z;", "", "   ", "/* multi", "   line */ int k = ;", "int \U0001d4b3;", "f(a,,b);",
         "int a[ = 2;", "\"str\" 1;",
         # lines that END in a multi-byte code point (the line break right after it), in every lexical situation
         "// café", "int y2; // 中文", "/* é", "é */ int v = ;", "int é", "x = é", "int w2 = 1 + \U0001d4b3", "\"str é", "'é", "é", "中", "int z3 = ; // \U0001f600",
         "  \té", "x \\é"]


def gen_text(rng, with_markers):
    n = rng.randrange(2, 9)
    ls = [rng.choice(LINES) for _ in range(n)]
    if with_markers and not any((l.startswith("/*") and "*/" not in l) or l.endswith("\\") for l in ls):
        for _ in range(rng.randrange(1, 3)):
            form = rng.choice(['# %d "m.c"', '#line %d "m.c"', '#line %d', '# %d "m.c" 1 3', '  # %d "m.c"'])
            ls.insert(rng.randrange(0, len(ls) + 1), form % rng.choice([1, 7, 100, 12345]))
    text = "\n".join(ls)
    if rng.random() < 0.7:
        text += "\n"
    return text


def parse_impl(line):
    t, d = line.split(" | D")
    toks = []
    for w in t.split()[1:]:
        m = re.match(r"(\w+)@(\d+)=(-?\d+):(-?\d+)/(-?\d+):(-?\d+)$", w)
        toks.append((m.group(1), int(m.group(2)), (int(m.group(3)), int(m.group(4))), (int(m.group(5)), int(m.group(6)))))
    diags = []
    for w in d.split():
        ident, rest = w.split("@")
        l, c, sn = rest.split(":")
        diags.append((ident, (int(l), int(c)), sn))
    return toks, diags


def impl_run(ctx, texts, flavour="ndebug"):
    from ..common import sh
    from .. import build
    inp = "".join("%s %s\n" % (OPTS, t.encode().hex()) for t in texts)
    rc, out, err = sh([build.psyh(flavour), "positions"], input=inp, timeout=3000)
    lines = out.split("\n")[:-1]
    if rc != 0 or len(lines) != len(texts):
        k = min(len(lines), len(texts) - 1)
        raise stages.HarnessCrash("positions", flavour, rc, texts[k], err[-1500:])
    return [parse_impl(l) for l in lines]


def run(ctx):
    proved = stages.lean_stage(ctx, "PsycheModel.Props.C16")
    stages.cxx_stage(ctx, "ndebug")
    rng = ctx.rng
    N = 1200 if ctx.quick else 20000
    texts = [gen_text(rng, i % 3 == 0) for i in range(N)]
    texts += ["int x;", "x", "\nx", "\n\n  x =", "# 5 \"a\"\nx =", "x\n# 5 \"a\"\ny =", "a\n\nb\n#line 9\n\nc c", "é =", "\U0001d4b3 \U0001d4b3 =", "int\n=\n;\n", "int a;\n// café\nint y = ;\n", "é\n=", "// 中\n\n\nx =", "/* é\né */ y =", "x é\n\ty ="]
    res = impl_run(ctx, texts)
    # ---- correspondence with the Lean model (positions, locations, excerpts)
    from .. import leanb
    mlines = []
    for t, (toks, diags) in zip(texts, res):
        mlines.append("%s %s" % (t.encode().hex(), " ".join(str(o) for _, o, _, _ in toks)))
    model = leanb.model("positions", "\n".join(mlines) + "\n")
    ncorr = nviol = 0
    ndiag = 0
    for t, (toks, diags), m in zip(texts, res, model):
        per = m.split(" | ")[0].split()
        ok = len(per) == len(toks)
        bypos = {}
        for (kind, off, pos, loc), pm in zip(toks, per):
            mp, ml, mex = pm.split("/")
            bypos.setdefault(pos, set()).add(mex)
            if "%d:%d" % pos != mp or "%d:%d" % loc != ml:
                ok = False
        for ident, pos, sn in diags:
            ndiag += 1
            if pos in bypos and sn not in bypos[pos]:
                ok = False
        if not ok:
            if ncorr < 3:
                ctx.report("corr:" + t[:60], "positions of the front end and of the Lean model differ on text %r" % t[:200],
                           {"component": "positions", "text": t, "impl": str((toks, diags))[:1500], "model": m[:1500]}, no_input=True)
            ncorr += 1
    # ---- the relational laws on the implementation itself
    pairs, meta = [], []
    for t in texts[:N]:
        ls = t.split("\n")
        if len(ls) < 2:
            continue
        li = rng.randrange(0, len(ls))            # a line boundary: start of line li
        k = rng.randrange(1, 4)
        # the start of a physical line that continues a spliced line / multi-line comment is still a line boundary for positions
        pairs.append("\n".join(ls[:li] + [""] * k + ls[li:])); meta.append(("nl", t, li, k))
        # blanks at the start of line li (before every token of that line) -- not inside a comment/splice continuation
        if not any(x in t for x in ("/* multi", "/* é", "\\\n")) and not ls[li].lstrip().startswith("#"):
            pairs.append("\n".join(ls[:li] + [" " * k + ls[li]] + ls[li + 1:])); meta.append(("sp", t, li, k))
        # text after line li replaced
        pairs.append("\n".join(ls[:li + 1] + ["zzz ( ;", "int"])); meta.append(("post", t, li, 0))
        # blanks before the '#' of a marker must not change any governed position
        mk = [j for j, l in enumerate(ls) if re.match(r"\s*#\s*(line\s+)?\d+", l)]
        if mk:
            j = rng.choice(mk)
            pairs.append("\n".join(ls[:j] + [" " * k + ls[j]] + ls[j + 1:])); meta.append(("indent", t, j, k))
        # more text before everything (markers must re-base identically)
        pre = rng.randrange(1, 4)
        pairs.append("\n".join(["int pre%d;" % j for j in range(pre)] + ls)); meta.append(("pre", t, li, pre))
    pres = impl_run(ctx, pairs)
    base = dict(zip(texts, res))
    for (kind, t, li, k), (ptoks, pdiags) in zip(meta, pres):
        toks, diags = base[t]
        ls = t.split("\n")
        # physical line index of each token in the base text, from the raw text (independent of the front end)
        u16 = lambda s: len(s.encode("utf-16-le")) // 2
        starts = [0]
        for l in ls[:-1]:
            starts.append(starts[-1] + u16(l) + 1)
        phys = lambda off: max(j for j, s in enumerate(starts) if s <= off)
        bad = None
        marker_lines = [j for j, l in enumerate(ls) if re.match(r"\s*#\s*(line\s+)?\d+", l)]
        if kind in ("nl", "sp"):
            if len(ptoks) != len(toks):
                continue          # whitespace changed tokenisation (e.g. inside a literal): not a position question
            for (kd, off, pos, loc), (kd2, off2, pos2, loc2) in zip(toks, ptoks):
                after = phys(off) >= li if kind == "nl" else phys(off) == li
                if kind == "nl":
                    # a token governed by a marker that itself lies at/after the insertion point keeps its re-based line
                    gov = [j for j in marker_lines if j <= phys(off)]
                    rebased_after = bool(gov) and gov[-1] >= li
                    exp_pos = (pos[0] + k, pos[1]) if after and not rebased_after else pos
                    exp_loc = (loc[0] + k, loc[1]) if after else loc
                else:
                    exp_pos = (pos[0], pos[1] + k) if after else pos
                    exp_loc = (loc[0], loc[1] + k) if after else loc
                if kd2 == "EndOfFile":
                    continue
                if pos2 != exp_pos or loc2 != exp_loc:
                    bad = "token %s (offset %d): %s inserted %s; computePosition %s -> %s (expected %s), location() %s -> %s (expected %s)" % (
                        kd, off, "%d line break(s)" % k if kind == "nl" else "%d blank(s)" % k,
                        "at the start of line %d" % li, pos, pos2, exp_pos, loc, loc2, exp_loc)
                    break
        elif kind == "indent":
            if len(ptoks) != len(toks):
                continue
            for (kd, off, pos, loc), (kd2, off2, pos2, loc2) in zip(toks, ptoks):
                if phys(off) == li:
                    continue
                if pos2 != pos:
                    bad = "token %s (offset %d): %d blank(s) inserted before the '#' of the marker on line %d; computePosition %s -> %s" % (kd, off, k, li, pos, pos2)
                    break
        elif kind == "post":
            for (kd, off, pos, loc), (kd2, off2, pos2, loc2) in zip(toks, ptoks):
                if phys(off) > li or kd == "EndOfFile" or phys(off) == li and kd2 != kd:
                    break
                if phys(off) < li and (pos2 != pos or loc2 != loc):
                    bad = "token %s (offset %d): text after line %d changed; position %s -> %s" % (kd, off, li, pos, pos2)
                    break
        elif kind == "pre":
            if len(ptoks) != len(toks) + 3 * k:
                continue
            marker_lines = [j for j, l in enumerate(ls) if re.match(r"\s*#\s*(line\s+)?\d+", l)]
            for (kd, off, pos, loc), (kd2, off2, pos2, loc2) in zip(toks, ptoks[3 * k:]):
                governed = any(j <= phys(off) for j in marker_lines)
                exp = pos if governed else (pos[0] + k, pos[1])
                if pos2 != exp or loc2 != (loc[0] + k, loc[1]):
                    bad = "token %s: %d line(s) of text added before everything (markers on lines %s); computePosition %s -> %s (expected %s), location() %s -> %s" % (
                        kd, k, marker_lines, pos, pos2, exp, loc, loc2)
                    break
        if bad:
            if nviol < 3:
                ctx.report("law:%s:%s" % (kind, t[:50]), "text %r: %s" % (t[:200], bad), {"component": "positions", "law": kind, "text": t, "line": li, "k": k})
            nviol += 1
    # excerpt law directly: the excerpt is the physical line holding the token, the caret stands under its first character
    for t, (toks, diags) in zip(texts, res):
        ls = t.split("\n")
        if any(re.match(r"\s*#\s*(line\s+)?\d+", l) for l in ls):
            continue
        for ident, pos, sn in diags:
            s = bytes.fromhex(sn).decode(errors="replace")
            exp_line = ls[pos[0]] if pos[0] < len(ls) else ""
            exp = exp_line + "\n" + " " * pos[1] + "^\n"
            if s != exp:
                if nviol < 3:
                    ctx.report("excerpt:" + t[:50], "text %r: diagnostic %s at %s carries excerpt %r, expected %r" % (t[:200], ident, pos, s, exp),
                               {"component": "positions", "law": "excerpt", "text": t})
                nviol += 1
                break
    # a marker '# N' on physical line j names the next line N: a governed token on physical line p is reported on N + (p - j - 1)
    for t, (toks, diags) in zip(texts, res):
        ls = t.split("\n")
        mk = [(j, int(re.match(r"\s*#\s*(?:line\s+)?(\d+)", l).group(1))) for j, l in enumerate(ls) if re.match(r"\s*#\s*(line\s+)?\d+", l)]
        if not mk:
            continue
        u16 = lambda s: len(s.encode("utf-16-le")) // 2
        starts = [0]
        for l in ls[:-1]:
            starts.append(starts[-1] + u16(l) + 1)
        for kd, off, pos, loc in toks:
            p = max(j for j, s0 in enumerate(starts) if s0 <= off)
            gov = [(j, n) for j, n in mk if j <= p]
            if not gov:
                # before every marker a token stands on its physical line, whatever markers (and diagnostics) come later in the text
                if pos[0] != p:
                    if nviol < 3:
                        ctx.report("marker-before:" + t[:50], "text %r: token %s on physical line %d precedes every line marker but is reported on line %d"
                                   % (t[:200], kd, p, pos[0]), {"component": "positions", "law": "marker-before", "text": t})
                    nviol += 1
                    break
                continue
            j, n = gov[-1]
            if pos[0] != n + (p - j - 1):
                if nviol < 3:
                    ctx.report("marker:" + t[:50], "text %r: token %s on physical line %d follows the marker '# %d' of line %d but is reported on line %d (expected %d)"
                               % (t[:200], kd, p, n, j, pos[0], n + (p - j - 1)), {"component": "positions", "law": "marker", "text": t})
                nviol += 1
                break
    ctx.cov.update({
        "evaluations": len(texts) + len(pairs), "distinct_nontrivial": len({t for t, r in zip(texts, res) if r[1]}),
        "traces_validated_against_impl": len(texts), "exhaustive": False,
        "rule": "%d generated texts (2-8 lines from a pool with syntax errors, indentation, tabs, comments, multi-line comments, line splices, BMP and astral multi-byte identifiers, blank lines, with/without trailing newline; a third with #line / GNU markers in 5 forms at random lines) + edge cases (offset 0, column 0, marker on first/later line, marker without file name); every token and every diagnostic compared with the Lean model (position, location, excerpt); then 4 transformed variants per text (k line breaks at a line boundary, k blanks at a line start, replaced trailing text, lines added before everything) checked against the relational laws on the implementation; non-trivial = distinct texts with at least one diagnostic"
                % N,
        "samples": [texts[0], texts[3], pairs[1]],
    })
    ctx.notes.update({"diagnostics_checked": ndiag, "law_violations": nviol, "correspondence_disagreements": ncorr, "transformed_variants": len(pairs)})
    ctx.assumptions += ["lines are reported 0-based by computePosition and 1-based by SyntaxToken::location(); only relational statements are made",
                        "Qt-Creator '# expansion' records are not generated", "markers stand alone on their physical line (no comment before '#')",
                        "columns are in UTF-16 code units, as the front end counts them"]
    if not proved:
        stages.lean_unproved(ctx, "C16", "PsycheModel.Props.C16")


def replay(ctx, rec):
    stages.cxx_stage(ctx, "ndebug")
    t = rec["replay"]["text"]
    r = impl_run(ctx, [t])[0]
    print("text:", repr(t)); print("tokens:", r[0]); print("diagnostics:", [(i, p, bytes.fromhex(s).decode(errors="replace")) for i, p, s in r[1]])
    ctx.cov.update({"evaluations": 1, "samples": [t]})
    return ctx.finish()
