"""C11 — Well-typed complete programs produce no error diagnostics in any semantic phase.

Proof: lean/PsycheModel/Props/C11.lean: (a) for all 18 arithmetic kinds, every ordered pair and every operator of
6.5.5-6.5.9/6.5.16.2, an operation C11 gives a type to is never rejected by the model of the checker's dispatch
(corollary of the C13 equalities, whose model is tied to the real TypeChecker exhaustively by the C13 run);
(b) on a transcription of typesAreCompatible, every error-free type of any depth is compatible with itself
(qualifiers respected AND qualifiers ignored - the latter since the repair of typesAreCompatible; 'kpp == kpq' of the sweep is its replay on the implementation).
Oracle sweep (the property itself): ~14,000 test functions (single constructs + every producer of a value class inside every consumer of that class) over a prelude of declarations of every
arithmetic type, pointers, arrays, structs/unions/enums, typedef chains and prototyped/variadic functions; gcc (the
property's flags) decides line by line which are valid C; every valid one must draw no Error diagnostic."""
import collections, concurrent.futures, json, os, re, sys
from .. import stages
from ..common import ROOT, sh
sys.path.insert(0, ROOT)
from gen.typedgen import tests, program, has_initializer

GCC = ["gcc", "-std=c11", "-pedantic-errors", "-Wall", "-Werror=incompatible-pointer-types", "-fsyntax-only", "-x", "c", "-"]


def gcc_bad_lines(text):
    rc, out, err = sh(GCC, input=text)
    return set(int(m.group(1)) for m in re.finditer(r"<stdin>:(\d+):\d+: error", err))


def run(ctx):
    proved = stages.lean_stage(ctx, "PsycheModel.Props.C11")
    stages.cxx_stage(ctx, "ndebug")
    # ---- tie of the Lean model of typesAreCompatible (Compat.lean; theorems compat_refl, compat_refl_ignoring_qualifiers): the REAL function on
    # every ordered pair of the types of generated declarations (drawn types and their one-place variations; typedef names stand for their
    # resolved synonym) x the four flag combinations, against the model's verdicts
    from gen.compatgen import program as compat_program
    from .. import leanb
    import random as _random
    cprogs = [compat_program(_random.Random(ctx.rng.randrange(1 << 30)), n=12 + i % 6, maxdepth=3 + i % 3) for i in range(120 if ctx.quick else 3000)]
    cans = stages.run_harness(ctx, "compat", [t.encode().hex() for t in cprogs], flavour="ndebug")
    cmodel = leanb.model("compat", "\n".join(a if " | " in a else "0 |  | " for a in cans) + "\n")
    npairs = ncdis = ntrue = nasg = nasgtrue = nadis = 0
    for text, a, m in zip(cprogs, cans, cmodel):
        if a.startswith(("CRASH", "HANG", "bad", "no-model")):
            ctx.report("compat-crash:" + text[-60:], "typesAreCompatible on the declarations of a generated unit did not complete: %s" % a[:200], {"component": "compat", "case": text.encode().hex(), "text": text})
            continue
        n_, tys, bits, abits = a.split(" | ")
        m, _, am = m.partition(" | ")
        # the model of isTypeAssignableFromOtherType (Assign.lean; theorems of Props/C11.lean) against the real function: every ordered pair,
        # right operand not a null pointer constant / the constant 0
        nasg += len(abits)
        nasgtrue += abits.count("1")
        if am != abits:
            nadis += 1
            if nadis <= 3:
                k = next((j for j in range(min(len(am), len(abits))) if am[j] != abits[j]), 0)
                n = int(n_)
                i1, i2, nl = k // (2 * n), (k // 2) % n, k % 2
                tl = tys.split(" ; ")
                ctx.report("assign-corr:" + text[-60:], "isTypeAssignableFromOtherType(type of v%d, type of v%d, %s) = %s, the Lean model of it gives %s; types %s / %s; unit:\n%s"
                           % (i1, i2, "the constant 0" if nl else "an expression that is no null pointer constant", abits[k:k + 1], am[k:k + 1] or "(nothing)", tl[i1] if i1 < len(tl) else "?", tl[i2] if i2 < len(tl) else "?", text[-900:]),
                           {"component": "compat", "case": text.encode().hex(), "text": text, "impl": abits[:400], "model": am[:400]}, no_input=True)
        npairs += len(bits)
        ntrue += bits.count("1")
        if m != bits:
            ncdis += 1
            if ncdis <= 3:
                k = next((j for j in range(min(len(m), len(bits))) if m[j] != bits[j]), 0)
                n = int(n_)
                i1, i2, fl = k // (4 * n), (k // 4) % n, k % 4
                tl = tys.split(" ; ")
                ctx.report("compat-corr:" + text[-60:], "typesAreCompatible(v%d, v%d, voidAsAny=%d, ignoreQualifier=%d) = %s, the Lean model of it gives %s; types %s / %s; unit:\n%s"
                           % (i1, i2, fl >> 1, fl & 1, bits[k:k + 1], m[k:k + 1] if m != "BAD" else "(unreadable type)", tl[i1] if i1 < len(tl) else "?", tl[i2] if i2 < len(tl) else "?", text[-900:]),
                           {"component": "compat", "case": text.encode().hex(), "text": text, "impl": bits[:400], "model": m[:400]}, no_input=True)
    ctx.notes["compat_tie"] = {"units": len(cprogs), "verdicts_compared": npairs, "of_which_compatible": ntrue, "disagreements": ncdis}
    ctx.notes["assign_tie"] = {"verdicts_compared": nasg, "of_which_assignable": nasgtrue, "disagreements": nadis}
    T = tests()
    if ctx.quick:
        # the complete pair tables of six representative binary/assignment operators + everything else
        keep_ops = ("bin%:", "bin<<:", "bin+:", "bin<:", "bin==:", "bin&&:", "bin&:", "asg=:", "asg%=:", "asg+=:", "asg<<=:")
        T = [t for t in T if not t[0].startswith(("bin", "asg")) or t[0].startswith(keep_ops)]
    A = [t for t in T if not has_initializer(t[1])]
    B = [t for t in T if has_initializer(t[1])]
    CH = 150
    chunks = [A[i:i + CH] for i in range(0, len(A), CH)] + [[b] for b in B]
    # REACHABILITY: every program ends with a canary, a function whose body the type checker must reject ('i = st;').  A program whose canary
    # draws no error was not checked to its end (the checker gives up silently at some constructs): its tests are then run one per program,
    # and the tests after which the canary stays silent are listed in the evidence ("quitters": nothing after them in a unit is checked).
    CANARY = "void canary_(void) { i = st; }"

    def with_canary(pw):
        text, where = pw
        return text.rstrip("\n") + "\n" + CANARY + "\n", where

    def canary_line(text):
        return text.rstrip("\n").count("\n") + 1

    def canary_fired(text, o):
        errs = o.split(" | ")[0]
        return any(e.partition("@")[2] == str(canary_line(text) - 1) for e in errs.split(","))

    def build(chs, base_of):
        pr = [with_canary(program(c, base_of(i))) for i, c in enumerate(chs)]
        with concurrent.futures.ThreadPoolExecutor(16) as ex:
            bd = list(ex.map(lambda p_: gcc_bad_lines(p_[0]), pr))
        for (text, where), bad in zip(pr, bd):
            stray = [l for l in bad if l not in where and l != canary_line(text)]
            if stray:
                raise RuntimeError("generator error: gcc rejects a line of the prelude (line %d: %r) - the oracle presupposes a valid prelude" % (stray[0], text.split("\n")[stray[0] - 1][:120]))
            if canary_line(text) not in bad:
                raise RuntimeError("generator error: gcc accepts the canary")
            bad.discard(canary_line(text))
        return pr, bd, stages.run_harness(ctx, "sema", [p_[0].encode().hex() for p_ in pr], flavour="ndebug")
    progs, bads, ans = build(chunks, lambda i: i * CH)
    quitters, silent_units = [], 0
    extra_chunks = []
    for (text, where), o, chunk in zip(progs, ans, chunks):
        if not o.startswith(("CRASH", "HANG", "bad")) and not canary_fired(text, o) and len(chunk) > 1:
            silent_units += 1
            extra_chunks += [[t] for t in chunk]
    if extra_chunks:
        p2, b2, a2 = build(extra_chunks, lambda i: 100000 + i)
        progs += p2; bads += b2; ans += a2; chunks += extra_chunks
    for (text, where), o, chunk in zip(progs, ans, chunks):
        if len(chunk) == 1 and not o.startswith(("CRASH", "HANG", "bad")) and not canary_fired(text, o):
            quitters.append(chunk[0][1] if not isinstance(chunk[0][1], tuple) else "return " + str(chunk[0][1][2]))
    lines = [p_[0].encode().hex() for p_ in progs]
    nvalid = nrej = nknown = ncrash = 0
    dump = open(os.environ["VERIF_C11_DUMP"], "w") if os.environ.get("VERIF_C11_DUMP") else None     # maintenance: list every rejection with its key
    diag_hist = collections.Counter()
    for (text, where), bad, o, chunk, line in zip(progs, bads, ans, chunks, lines):
        valid = [l for l in where if l not in bad]
        nvalid += len(valid)
        if o.startswith(("CRASH", "HANG", "bad")):
            ncrash += 1
            # find the culprit: every test alone
            culprit = None
            for l in valid:
                t1, _ = program([chunk[where[l]]], 0)
                if stages.run_harness(ctx, "sema", [t1.encode().hex()])[0].startswith(("CRASH", "HANG")):
                    culprit = (chunk[where[l]], t1)
                    break
            what = culprit[1].split("\n")[-2] if culprit else "(not isolated)"
            ctx.report("crash:" + what[:100], "computing the semantic model of a program gcc accepts crashed or hung: %s: %s" % (what, o[:300]),
                       {"component": "sema", "case": (culprit[1] if culprit else text).encode().hex(), "text": culprit[1] if culprit else text})
            continue
        errs = o.split(" | ")[0]
        if errs == "-":
            continue
        for e in errs.split(","):
            id_, _, ln = e.partition("@")
            ln = int(ln) + 1                              # the front end counts lines from 0
            if ln in where and ln in bad:
                continue
            if ln == canary_line(text):
                continue
            src = text.split("\n")[ln - 1] if 0 < ln <= len(text.split("\n")) else "?"
            stmt = re.sub(r"^(?:void t|\S.*? r)\d+\(void\) \{ ?(.*?) ?\}$", r"\1", src) if ln in where else src
            diag_hist[id_] += 1
            key = "reject:%s:%s" % (id_, stmt if ln in where else "prelude:" + src[:60])
            nrej += 1
            if dump:
                dump.write(json.dumps({"key": key, "src": src}) + "\n")
            if ctx.report(key, "valid C (gcc accepts) draws error %s: %s" % (id_, src),
                          {"component": "sema", "case": (program([chunk[where[ln]]], 0)[0] if ln in where else text).encode().hex(), "text": src}) is False:
                nknown += 1
    ctx.cov.update({
        "evaluations": len(T), "traces_validated_against_impl": nvalid, "distinct_nontrivial": nvalid, "exhaustive": not ctx.quick,
        "rule": "test functions, one construct each, over all %d combinations the generator's tables give (every binary and compound-assignment operator x every ordered pair of the 15 arithmetic variables; ~65 unary/conversion/subscript/call/assignment/condition templates x every arithmetic, typedef'd, enum, const, volatile variable; ~130 pointer/array, ~100 struct/union/enum, ~110 call, ~150 mixed statements; 36 return forms); validity decided per line by gcc with the property's flags; quick = 11 operator tables + everything else" % len(T),
        "samples": [progs[0][0].split("\n")[-2], progs[len(progs) // 2][0].split("\n")[-2], progs[-1][0].split("\n")[-2]],
    })
    ctx.notes.update({"tests": len(T), "valid_by_gcc": nvalid, "rejected_valid": nrej, "of_which_known": nknown, "crashes": ncrash, "diagnostic_histogram": dict(diag_hist), "programs": len(progs),
                      "units_not_checked_to_their_end": silent_units, "tests_after_which_checking_stops": sorted(set(quitters))[:60]})
    ctx.assumptions += ["the type checker stops (Action::Quit) at the first initialised declaration, brace-enclosed initialiser or GNU attribute of a unit: what follows is not checked at all; tests with a local initialiser therefore get a program of their own and the prelude has none",
                        "gcc 12 with the property's flags is the judge of validity, line by line",
                        "known findings are keyed by the exact (diagnostic id, statement): any other rejected statement is a violation"]
    if not proved:
        stages.lean_unproved(ctx, "C11", "PsycheModel.Props.C11")


def replay(ctx, rec):
    stages.cxx_stage(ctx, "ndebug")
    l = rec["replay"]["case"]
    print("text:\n" + bytes.fromhex(l).decode("latin-1")[-600:])
    print("sema:", stages.run_harness(ctx, "sema", [l])[0])
    ctx.cov.update({"evaluations": 1, "samples": [l[:200]]})
    return ctx.finish()
