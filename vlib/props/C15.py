"""C15 — Results are deterministic and each tree's model is independent of the others.

Proof: lean/PsycheModel/Props/C15.lean over PsycheModel/Compilation.lean (trees added, dirty flags, per-tree models;
`analyse` = what the phases compute from a tree alone): for every history over any number of trees the model of a tree
is what the sub-history naming that tree leaves, it is never anything but absent or `analyse t`, and once added and
computed it is `analyse t` under every continuation (recomputing and asking again change nothing).
The hypothesis that the real phases ARE a function of the tree alone (no process-wide state, no dependence on other
trees, addresses or hash order) is CHECKED, not proved: every tree's normalised dump (tree kinds, diagnostics in
order, declarations with types, expression TypeInfo) obtained alone in a FRESH process is the baseline; all call
histories up to a length over 2-3 trees plus random ones over 4 run in ONE process each (so that process-wide state
from earlier compilations of the same process is in play as well) and every dump must equal the baseline."""
import collections, itertools, random, sys
from .. import stages, build
from ..common import ROOT, sh
sys.path.insert(0, ROOT)
from gen.cgen import Gen

FIXED = [
    "typedef unsigned char byte; byte b; int f(int a) { return a + b; }\n",
    "typedef long ptrdiff_t; int *p, *q; void g(void) { ptrdiff_t d = p - q; d; L'x'; u\"s\"; U'y'; }\n",
    "typedef int wchar_t; typedef unsigned size_t; wchar_t w = L'a'; size_t n = sizeof(int); char *s = \"a\" \"b\";\n",
    "struct S { int a; char *b; } s; enum E { K1, K2 = 3 }; int h(struct S *p) { return p->a + s.a + K2; }\n",
    "int x = ; void (e(  { return 1 + ; }\nint ok;\n",
    "typedef short char16_t; typedef int char32_t; void k(void) { u'a'; U'b'; u\"s\"; 1 ? 2 : 3; }\n",
    "double d = 1.5f + 2; unsigned long ul; long long ll; void m(void) { ul + ll; d * ul; ul << 2; }\n",
    # every basic type spelled in unusual specifier orders (the binder combines the keywords of a list step by step: whatever object it
    # updates in place must be this tree's own) ...
    "float _Complex fc; double _Complex dc; long double _Complex ldc; _Complex float cf; long unsigned int lui; int long long unsigned illu; "
    "char signed cs; char unsigned cu; short int unsigned siu; double long dl; long long int ll2; signed s1; unsigned u1; _Bool bb; long int signed lis; "
    "int short is1; unsigned char uc2; long _Complex double lcd;\n",
    # ... and every basic type used plainly, with constants of every suffix, in another tree
    "float f1 = 1.0f; double d1 = 2.0; long double ld1 = 3.0L; int i1 = 1; unsigned u2 = 1u; long l1 = 1L; unsigned long ul1 = 1UL; long long ll1 = 1LL; "
    "unsigned long long ull1 = 1ULL; char c1 = 'a'; signed char sc1; unsigned char uc1; short s2; unsigned short us2; _Bool b1; "
    "void n(void) { f1 < 1.0f; d1 + f1; ld1 * d1; i1 + u2; l1 - ul1; ll1 << 1; ull1 / 2; c1 + s2; sc1 + uc1; us2 - s2; b1 || i1; }\n",
]


def run(ctx):
    proved = stages.lean_stage(ctx, "PsycheModel.Props.C15")
    stages.cxx_stage(ctx, "ndebug")
    rng = ctx.rng
    texts = list(FIXED)
    for i in range(4 if ctx.quick else 12):
        texts.append(Gen(random.Random(rng.randrange(1 << 30)), typed=True, gnu=False, maxdepth=3).program(nitems=6))
    hx = [t.encode().hex() for t in texts]
    # baseline: every tree alone, each in a fresh process
    base = {}
    for i, h in enumerate(hx):
        rc, out, err = sh([build.psyh("ndebug"), "histories"], input="a0,c0,q0 %s\n" % h, timeout=60)
        if rc != 0 or "| final" not in out:
            ctx.report("crash:tree%d" % i, "computing the model of one tree alone failed (rc %s): %s\n%s" % (rc, err[-300:], texts[i]), {"component": "histories", "case": "a0,c0,q0 " + h, "text": texts[i]})
            continue
        base[i] = out.split("| final ; t0=", 1)[1].strip()
        # and once more in another fresh process: determinism across processes
        rc2, out2, _ = sh([build.psyh("ndebug"), "histories"], input="a0,q0,c0,c0,q0 %s\n" % h, timeout=60)
        if rc2 != 0 or out2.split("| final ; t0=", 1)[-1].strip() != base[i]:
            ctx.report("nondet:tree%d" % i, "two fresh processes give different results for the same text:\n%s" % texts[i], {"component": "histories", "case": "a0,q0,c0,c0,q0 " + h, "text": texts[i]})
    ok_trees = sorted(base)
    cases = []          # (ops, [tree ids])
    # all histories up to length L over a pair (thorough: also triples), every op on every tree
    L = 5 if ctx.quick else 6
    pairs = [(1, 0), (0, 1), (2, 5), (1, 5), (3, 4)] if ctx.quick else list(itertools.permutations(range(len(FIXED)), 2))
    alphabet2 = ["a0", "a1", "c0", "c1", "q0", "q1"]
    for pr in pairs:
        if not all(p in base for p in pr):
            continue
        for n in range(2, L + 1):
            for seq in itertools.product(alphabet2, repeat=n):
                # keep the histories in which each tree is added before it is computed/queried (others are no-ops in the harness)
                if seq.count("a0") + seq.count("a1") == 0 or seq[0][0] != "a":
                    continue
                if n == L and rng.random() < (0.85 if ctx.quick else 0.5):
                    continue
                cases.append((",".join(seq), list(pr)))
    for _ in range(300 if ctx.quick else 5000):
        k = rng.choice([2, 3, 4])
        ids = rng.sample(ok_trees, k)
        ops = ["a%d" % j for j in range(k)]
        rng.shuffle(ops)
        seq = []
        for _ in range(rng.randrange(3, 14)):
            seq.append(rng.choice("acq") + str(rng.randrange(k)))
        # interleave the additions at random positions
        for a in ops:
            seq.insert(rng.randrange(len(seq) + 1), a)
        cases.append((",".join(seq), ids))
    # several histories per process, so that process-wide state left by earlier compilations is exercised too
    lines = ["%s %s" % (ops, " ".join(hx[i] for i in ids)) for ops, ids in cases]
    rng.shuffle(lines)
    cases_by_line = {}
    for (ops, ids), l in zip(cases, ["%s %s" % (o, " ".join(hx[i] for i in ids)) for o, ids in cases]):
        cases_by_line[l] = (ops, ids)
    ans = stages.run_harness(ctx, "histories", lines)
    nviol = ndump = 0
    for line, o in zip(lines, ans):
        ops, ids = cases_by_line[line]
        if o.startswith(("CRASH", "HANG", "bad")):
            nviol += 1
            if nviol <= 3:
                ctx.report("crash:" + ops, "history %s over trees %s did not complete: %s" % (ops, ids, o[:300]), {"component": "histories", "case": line})
            continue
        qpart, _, final = o.partition("| final")
        computed = set()
        added = set()
        seen_q = []
        for op in ops.split(","):
            j = int(op[1:])
            if op[0] == "a":
                added.add(j)
            elif op[0] == "c" and j in added:
                computed.add(j)
            elif op[0] == "q" and j in added:
                seen_q.append((j, j in computed))
        qs = [q for q in qpart.split(" ; ") if q.strip() and q.strip() != "-"]
        bad = None
        for (j, was_computed), q in zip(seen_q, qs):
            ndump += 1
            d = q.split(":", 1)[1].strip() if ":" in q else q
            if was_computed and d != base[ids[j]]:
                bad = bad or ("query of tree %d" % j, d, base[ids[j]])
        for f in final.split(" ; ")[1:]:
            name, _, d = f.partition("=")
            j = int(name.strip()[1:])
            ndump += 1
            if j in computed and d.strip() != base[ids[j]]:
                bad = bad or ("final state of tree %d" % j, d.strip(), base[ids[j]])
        if bad:
            nviol += 1
            if nviol <= 3:
                where, got, want = bad
                k = next((i for i, (a, b) in enumerate(zip(got, want)) if a != b), min(len(got), len(want)))
                ctx.report("hist:" + ops + ":" + ",".join(map(str, ids)),
                           "history [%s] over trees %s: the %s differs from the model of that tree computed alone in a fresh process; first difference at char %d: …%s… vs …%s…\ntree text: %s"
                           % (ops, ids, where, k, got[max(0, k - 60):k + 60], want[max(0, k - 60):k + 60], texts[ids[int(where.split()[-1])]][:300]),
                           {"component": "histories", "case": line, "ops": ops, "trees": [texts[i] for i in ids]})
    ctx.cov.update({
        "evaluations": len(lines), "traces_validated_against_impl": len(lines), "distinct_nontrivial": ndump, "exhaustive": False,
        "rule": "baseline = each of %d trees (9 fixed ones using ptrdiff_t/size_t/wchar_t/char16_t/char32_t typedefs, pointer difference, wide/u/U literals, struct/enum, an erroneous text, every basic type in unusual specifier orders, every basic type used plainly with constants of every suffix; + generated programs) alone in a fresh process, twice; then all add/compute/query histories up to length %d over ordered pairs of trees (longest length sampled) and random histories of up to 17 calls over 2-4 trees, all run in shared processes in shuffled order; every dump after computation must equal the baseline" % (len(texts), L),
        "samples": [lines[0][:200], lines[-1][:200]],
    })
    ctx.notes.update({"histories": len(lines), "dumps_compared": ndump, "violations": nviol, "trees": len(texts)})
    ctx.assumptions += ["a dump contains tree kinds (pre-order), diagnostic ids with lines in order, every declaration with its type, and kind/type/origin/conversion of the expressions with TypeInfo; nothing address- or hash-order-dependent is printed",
                        "threads are not exercised (the API is single-threaded)"]
    if not proved:
        stages.lean_unproved(ctx, "C15", "PsycheModel.Props.C15")


def replay(ctx, rec):
    stages.cxx_stage(ctx, "ndebug")
    l = rec["replay"]["case"]
    print(stages.run_harness(ctx, "histories", [l])[0][:3000])
    ctx.cov.update({"evaluations": 1, "samples": [l[:200]]})
    return ctx.finish()
