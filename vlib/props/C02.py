"""C02 — Semantic analysis is total, memory-safe and leaves no dangling results.

Proof: lean/PsycheModel/Props/C02.lean over PsycheModel/Ownership.lean (holders of type objects, the discard-and-free
discipline of canonicalisation, arbitrary sharing): a visited holder never dangles; an unvisited one dangles exactly
when it shares a discardable object with a visited one; a complete traversal (or no such sharing) leaves nothing
dangling; plus the totality of typedef resolution (C12) and the binder's stack discipline (C07, C10).
NOT provable here and therefore exercised: the frees themselves, destructors, null dereferences that only exist under
NDEBUG, unbounded recursion.  Every input is taken through all four phases and then EVERYTHING reachable through the
semantic-model API is walked and printed (psyh semawalk) in an ASan+UBSan build and in the NDEBUG build (thorough: also
assertion builds); any sanitizer report, signal, hang or undeclared exception is a failing input."""
import collections, random, re, sys
from .. import stages
from ..common import ROOT
sys.path.insert(0, ROOT)
from gen.cgen import mutate_identifiers, Gen, mutate_tokens, mutate_bytes
from gen.declgen import DeclGen
from gen.scopegen import ScopeGen
from gen.typedefgen import TypedefGen
from gen.snippets import corpus
from gen.typedgen import tests as typed_tests, program as typed_program, has_initializer

SHAPES = [
    "typedef int T; void g(T *x, int T); T y;", "typedef int T; void g(T a[2], const T *b, T (*c)(T), int T); T y; void h(void) { T z; z = y; }",
    "typedef struct S { int m; } T; void g(T *p, T T); void k(T T, T *q);", "typedef int T; int f(T T) { return T; } T w;", "typedef int T; void g(int T, T *x);",
    "struct S { struct S s; } x, y; void f(void) { x = y; }", "union U { union U u; int i; } a, b; void f(void) { a = b; a.u = b.u; }", "struct A { struct B b; }; struct B { struct A a; } p, q; void f(void) { p = q; }",
    "void f(enum E { A, B } e);", "void f(struct P { int a; } p, enum Q { K } q, union R { int r; } *r); int g(enum E2 { X, Y } e) { return e + X; }",
    "void f(int); int *g(int a); int (*h(char))(double); void k(int (*)(void), char *[]);",
    "struct S { int a, : 2; unsigned : 0, b : 3; struct S *n; union { int u; float v; }; } s, *ps;",
    "main() { return 0; } static counter; g(); h() { register i; i = 0; return f() + g() + i; } f() { return 1; }",
    "typedef A B; typedef B A; A zz; typedef T T; T t; typedef U *U; U u;",
    "typedef struct N N; struct N { N *next; struct M *m; }; struct M { N n; struct M *self; } mm;",
    "unknown_t q; struct U *pu; enum E e; void k(void) { undeclared(1); q + 1; pu->x; e = 3; }",
    "struct S; struct S f(struct S); union S g(void); enum S { K }; struct T { struct T t; };",
    "void (*fp)(int) = (void (*)(int))0; int x = sizeof(int[3]); char c = (char)x; long l = (long)(int *)0;",
    "int f(a, b) int a; char *b; { return a + *b; } int g(x) { return x; }",
    "void f(void) { int n; int vla[n]; int m[n][n + 1]; sizeof(int[n]); typedef int V[n]; V v; }",
    "int a[] = { 1, [2] = 3 }; struct { int x; struct { int y; } in; } an = { .x = 1, .in.y = 2 }; char s[] = \"lit\" \"x\";",
    "void f(void) { struct L { int a; } l; { struct L { char c; } l2; l2.c; } l.a; typedef struct L TL; TL t; t.a; }",
    "_Static_assert(sizeof(int) == 4, \"m\"); _Alignas(8) int al; _Atomic(int) at; int _Atomic at2; _Noreturn void nr(void); _Thread_local int tl;",
    "typeof(1) ty; __typeof__(ty) ty2; __extension__ typedef long long ll; int ga __attribute__((unused)); int gf(void) __asm__(\"x\");",
    "int f(int x) { switch (x) { case 1: { int y = x; return y; } default: ; } for (int i = 0; i < x; ++i) { int j = i; } return _Generic(x, int: 1, default: 2); }",
    "void f(struct P { int a; } p, int (*cb)(struct P q)); int g(int n, int a[n], int b[static 3], int c[*]);",
    "int x, x; void x(void); typedef int x; struct x { int x; } xx; enum { x2 = sizeof(struct x) }; int f(int f) { return f; }",
    "int (*fpa[3])(int (*)(int)); int (*(*ppf)(void))[2]; const volatile int * const * restrict volatile cv;",
    "int a; int g = ({ int t = a; t; }); void f(void) { long l = ({ char c = 1; struct Q { int m; } q; q.m + c; }) + 1; int arr[({ int n = 2; n; })]; }",
    "int f(unknown_t a, T b) { return a + b - *a; } void g(U u) { u.m = 1; u(); u[0]; } int a[] = { 1, 2, { , } ;",
    "void s() { (b) & _Generic(1, int: 3); (c) * sizeof(struct W { int w; }); (d) - (int) { 1 }; u (v[sizeof(char)]); } }",
    "enum { K = sizeof }; typedef int v = sizeof(int); typedef w[] = (_Generic(1, t: 1, g: 2), 3); typedef int u[_Alignof(struct Q { int q; })];",
    "", ";", "int", "int x", "struct", "typedef", "void f(", "int a[", "x y z;", "{ }", "= 3;", "int x = ;", "void f(void) { return", "enum E {", "struct S { int",
]


def opts(mode=2):
    return "2,1,0,%d,%s" % (mode, "d" * 31)


def make_inputs(ctx):
    rng = ctx.rng
    q = ctx.quick
    texts = [("shape", t) for t in SHAPES]
    # constants at and beyond the limits of every integer type wherever the semantic phases evaluate or classify a constant (initialisers,
    # array sizes, enumerators, bit-field widths, case labels, designators, alignment, escapes) and in the directive lines the lexer reads
    from .C01 import extreme_number_inputs
    ext = extreme_number_inputs()
    texts += [("extreme-number", t) for t in (ext[:: 3] if q else ext)]
    for i in range(60 if q else 1500):
        r = random.Random(rng.randrange(1 << 30))
        texts.append(("cgen", Gen(r, typed=(i % 3 != 0), gnu=(i % 2 == 0), kr=(i % 4 == 0), maxdepth=3 + i % 2).program()))
    base = [t for k, t in texts if k == "cgen"]
    for i in range(120 if q else 4000):
        t = base[rng.randrange(len(base))]
        if i % 4 == 3:
            texts.append(("bytes", mutate_bytes(rng, t, rng.randrange(1, 4)).decode("latin-1")))
        else:
            texts.append(("tokens", mutate_tokens(rng, t, rng.randrange(1, 5))))
    for i in range(40 if q else 800):
        r = random.Random(rng.randrange(1 << 30))
        texts.append(("declgen", DeclGen(r, maxdepth=3 + i % 5).program(nunits=3 + i % 6)[0]))
        texts.append(("scopegen", ScopeGen(r, names=4, maxdepth=3, late=bool(i % 2), enums=True, size=20 + i % 40).program()))
        tg = TypedefGen(r, chain=3 + i % 8, size=15 + i % 30).program()
        texts.append(("typedefgen", tg))
        # the typedef / tag declarations removed: every use becomes an unknown name
        texts.append(("typedefgen-undeclared", "\n".join(l for l in tg.split("\n") if not l.strip().startswith(("typedef ", "struct ", "union "))) + "\n"))
        # … and made self-referential / cyclic
        texts.append(("typedefgen-cyclic", re.sub(r"typedef (?:const |volatile )?(\w+)", lambda m: "typedef T%d" % rng.randrange(6), tg)))
    # identifier swaps: one occurrence of a name replaced by another name of the same program (collisions between typedef names, parameters,
    # members, tags, enumerators, functions; names used in the wrong role; self-reference)
    pool = [t for k, t in texts if k in ("cgen", "declgen", "scopegen", "typedefgen", "shape")]
    for i in range(400 if q else 12000):
        texts.append(("ident-swap", mutate_identifiers(rng, pool[rng.randrange(len(pool))], rng.randrange(1, 4))))
    # nesting just inside the parser's limits (the limits of the fifth-session repair: every later pass - disambiguation, binding, canonicalisation,
    # typedef resolution, type checking, this walk - recurses over a tree that deep)
    for t in ["int a; void f(void){ " + "if(a) " * 1900 + " ; }", "int a; void f(void){ " + "if(a) ; else " * 1900 + " ; }", "int a; void f(void){ " + "a=" * 900 + " 1; }",
              "int a; void f(void){ a = " + "(int)" * 480 + " 1; }", "int " + "*" * 900 + "p;", "struct s { int a; " * 450 + " m; }" * 450 + ";",
              "int a; void f(void){ a = " + "a?a:" * 900 + " 1; }", "int g(int); int a; void f(void){ a = " + "g(" * 300 + "1" + ")" * 300 + "; }", "int arr" + "[1]" * 900 + ";"]:
        texts.append(("near-limit", t))
    # the forms that need every extension / translation switched on (kind "ext": parsed with all switches on)
    from gen.snippets import extension_corpus
    for _, t in extension_corpus():
        texts.append(("ext", t))
        texts.append(("ext", mutate_identifiers(rng, t, 1)))
    sn = [t for c, t in corpus() if c == "a"]
    for t in sn[:: (6 if q else 1)]:
        texts.append(("snippets", t))
    T = [t for t in typed_tests() if not t[0].startswith(("bin", "asg"))]
    A = [t for t in T if not has_initializer(t[1])]
    for i in range(0, len(A), 250):
        texts.append(("typedgen", typed_program(A[i:i + 250], i)[0]))
    for b in [t for t in T if has_initializer(t[1])][:: (5 if q else 1)]:
        texts.append(("typedgen-init", typed_program([b], 0)[0]))
    return texts


def shrink(ctx, flavour, text, phase):
    """drop lines while the walk still fails"""
    lines = text.split("\n")
    def fails(ls):
        t = "\n".join(ls)
        o = stages.run_harness(ctx, "semawalk", ["%s %d %s" % (opts(), phase, (t.encode("latin-1", "replace") or b" ").hex())], flavour=flavour, per_case_s=20)[0]
        return o.startswith(("CRASH", "HANG")), o
    i = 0
    budget = 60
    while i < len(lines) and budget > 0 and len(lines) > 1:
        cand = lines[:i] + lines[i + 1:]
        budget -= 1
        if fails(cand)[0]:
            lines = cand
        else:
            i += 1
    return "\n".join(lines)


def run(ctx):
    proved = stages.lean_stage(ctx, "PsycheModel.Props.C02")
    flavours = ["asan", "ndebug"] if ctx.quick else ["asan", "ndebug", "assert", "asan-assert"]
    texts = make_inputs(ctx)
    fams = collections.Counter(k for k, _ in texts)
    nviol = 0
    totals = collections.Counter()
    for fl in flavours:
        stages.cxx_stage(ctx, fl)
        ALLON = "2,1,0,2," + "1" * 31
        lines = ["%s 4 %s" % (ALLON if k_ == "ext" else opts(), (t.encode("latin-1", "replace") or b" ").hex()) for k_, t in texts]
        # every fourth input once more with every extension / translation switched on, and with all of them off
        lines += ["%s 4 %s" % (ALLON, (t.encode("latin-1", "replace") or b" ").hex()) for _, t in texts[:: 4]]
        lines += ["%s 4 %s" % ("1,1,0,2," + "0" * 31, (t.encode("latin-1", "replace") or b" ").hex()) for _, t in texts[1:: 8]]
        if fl == "ndebug":
            # the earlier phases on their own as well (a walk after binding only, after canonicalisation only, …)
            lines += ["%s %d %s" % (opts(), ph, (t.encode("latin-1", "replace") or b" ").hex()) for ph in (1, 2, 3) for _, t in texts[:: 3]]
        ans = stages.run_harness(ctx, "semawalk", lines, flavour=fl, per_case_s=20, max_failures=12)
        for line, o in zip(lines, ans):
            m = re.match(r"ok decls=(\d+) types=(\d+) uses=(\d+) exprs=(\d+)", o)
            if m:
                totals["decls"] += int(m.group(1)); totals["types"] += int(m.group(2)); totals["uses"] += int(m.group(3)); totals["exprs"] += int(m.group(4))
                continue
            if o == "SKIPPED":
                continue
            if o.startswith("exception"):
                # the declared exception of the parser's nesting limit is not a violation; anything else is
                if "maximum depth" in o:
                    continue
            nviol += 1
            if nviol <= 4:
                phase = int(line.split()[1])
                text = bytes.fromhex(line.split()[2]).decode("latin-1")
                small = shrink(ctx, fl, text, phase) if o.startswith(("CRASH", "HANG")) else text
                ctx.report("walk:%s:%s" % (fl, small[:80]), "build %s, phases 1..%d: computing the semantic model and walking everything reachable did not survive: %s\ninput:\n%s"
                           % (fl, phase, o[:700], small[:1500]),
                           {"component": "semawalk", "flavour": fl, "case": "%s %d %s" % (opts(), phase, (small.encode("latin-1", "replace") or b" ").hex()), "text": small, "answer": o[:2000]})
    ctx.cov.update({
        "evaluations": len(texts) * len(flavours), "traces_validated_against_impl": len(texts) * len(flavours), "distinct_nontrivial": len(texts), "exhaustive": False,
        "rule": "inputs: %d hand-written shapes (unnamed and nested prototypes' parameters, unnamed bit-fields sharing a base type, implicit int, self-referential and cyclic typedef names, unknown type names and tags, incomplete and recursive structs, K&R definitions, VLAs, initialisers, GNU forms, redeclarations, truncated texts), generated C11/GNU/K&R programs and their token/byte mutations, declaration/scope/typedef programs of the other generators, typedef programs with their declarations removed or made cyclic, the syntactic corpus, the typed construct programs; each through all four phases (NDEBUG build: also phases 1..k alone) followed by a walk of every declaration, type component, typedef/tag referent, member list, scope chain, recorded use scope and expression TypeInfo, printing with the library's printers, and destruction; builds: %s" % (len(SHAPES), ", ".join(flavours)),
        "samples": [texts[0][1][:200], texts[len(texts) // 2][1][:200], texts[-1][1][:200]],
    })
    ctx.notes.update({"inputs": len(texts), "families": dict(fams), "builds": flavours, "objects_walked": dict(totals), "violations": nviol})
    ctx.assumptions += ["ASan is run with new_delete_type_mismatch=0: deleting TypeImpl objects through the base class without a virtual destructor is a known size mismatch of the pimpl idiom used, not a dangling result",
                        "leak detection is off",
                        "the parser's declared nesting-limit exception is not a violation"]
    if not proved:
        stages.lean_unproved(ctx, "C02", "PsycheModel.Props.C02")


def replay(ctx, rec):
    fl = rec["replay"].get("flavour", "asan")
    stages.cxx_stage(ctx, fl)
    l = rec["replay"]["case"]
    print("text:\n" + bytes.fromhex(l.split()[2]).decode("latin-1")[:2000])
    print("walk (%s):" % fl, stages.run_harness(ctx, "semawalk", [l], flavour=fl, per_case_s=30)[0][:3000])
    ctx.cov.update({"evaluations": 1, "samples": [l[:200]]})
    return ctx.finish()
