"""C09 — Syntactic ambiguities are resolved correctly and never left silently.

Proof: lean/PsycheModel/Props/C09.lean over PsycheModel/Disambig.lean (generic tree): with visitors that look at all
children no ambiguity node is left, for any tree/strategy (and one IS left below a node whose visitor does not: the
recorded pinned behaviour, as a witness); disambiguation never changes the token sequence when both readings of every
ambiguity cover the same tokens.
Tie/oracle (H): gen/ambiggen.py places every ambiguity form in every expression/statement context with every way of
declaring the names; per case and mode the final tree is listed by the harness: no Ambiguous* node in the resolving
modes, an Ambiguous* node only with its ambiguity diagnostic in the others, both alternatives over the same extent, and
(in the modes that use the declarations) the reading a C compiler takes, known by construction (gcc accepts all)."""
import collections, random, re, sys
from .. import stages
from ..common import ROOT, sh
sys.path.insert(0, ROOT)
from gen.ambiggen import AmbigGen

MODES = {0: "None", 1: "Algorithmic", 2: "AlgorithmicAndHeuristic", 3: "Heuristic"}


def opts(mode):
    return "2,1,0,%d,%s" % (mode, "d" * 31)


def run(ctx):
    proved = stages.lean_stage(ctx, "PsycheModel.Props.C09")
    stages.cxx_stage(ctx, "ndebug")
    g = AmbigGen(random.Random(ctx.seed))
    cases = g.all_cases(every=4 if ctx.quick else 1)
    # a sample through gcc: the ground truth presupposes valid programs
    ngcc = nbad = 0
    for c in cases[:: max(1, len(cases) // (80 if ctx.quick else 1531))]:
        rc, _, _ = sh(["gcc", "-std=c11", "-fsyntax-only", "-w", "-x", "c", "-"], input=c["text"])
        ngcc += 1
        nbad += rc != 0
    lines, meta = [], []
    for mode in (2, 1, 3, 0):
        for c in cases:
            lines.append("%s %s" % (opts(mode), c["text"].encode().hex()))
            meta.append((mode, c))
    ans = stages.run_harness(ctx, "disambig", lines)
    nviol = 0
    tally = collections.Counter()
    known = collections.Counter()
    for (mode, c), line, o in zip(meta, lines, ans):
        def viol(kind, what):
            nonlocal nviol
            nviol += 1
            if nviol <= 4:
                ctx.report("%s:%s:%s:%s:%d" % (kind, c["form"], c["ctx"], c["how"], mode),
                           "mode %s, ambiguity %r (%s) in context '%s' with the name declared as '%s': %s.  Program:\n%s"
                           % (MODES[mode], c["expr"], c["form"], c["ctx"], c["how"], what, c["text"]),
                           {"component": "disambig", "case": line, "text": c["text"], "mode": mode})
        if o.startswith(("CRASH", "HANG", "exception", "no-root", "bad")):
            viol("crash", "no tree: " + o[:200])
            continue
        body, _, diags = o.partition("| diags=")
        ds = [d for d in diags.strip().split(",") if d not in ("-", "")]
        nodes = []
        for n in body.split():
            k, f, l = n.rsplit(":", 2)
            nodes.append((k, None if f == "-" else int(f), None if l == "-" else int(l)))
        amb = [n for n in nodes if n[0].startswith("Ambiguous")]
        other = [d for d in ds if not d.startswith("Parser-A")]
        nambdiag = len([d for d in ds if d.startswith("Parser-A")])
        if other:
            viol("diag", "diagnostics %s on a valid program" % other)
            continue
        # both alternatives of a remaining ambiguity cover the same tokens
        for a in amb:
            same = [n for n in nodes if n[1] == a[1] and n[2] == a[2]]
            if len(same) < 3:
                viol("extent", "the alternatives of %s do not cover the same extent %s-%s" % (a[0], a[1], a[2]))
        if mode in (2, 3):
            if amb:
                viol("left", "%d ambiguity node(s) left in the tree in a mode that resolves every ambiguity (%s)" % (len(amb), amb[0][0]))
                continue
        else:
            if len(amb) > nambdiag:
                viol("silent", "%d ambiguity node(s) remain but only %d ambiguity diagnostic(s) were reported" % (len(amb), nambdiag))
                continue
        tally["%s:%s" % (MODES[mode], "left" if amb else "resolved")] += 1
        if amb or mode == 3 or mode == 0:
            continue                      # the guideline-only mode does not look at declarations: no ground truth to hold it to
        a, b = c["span"]
        kinds = [k for k, f, l in nodes if f is not None and f >= a and l <= b]
        if c["want"] not in kinds:
            viol("reading", "read as %s; a C compiler reads %s" % ([k for k in kinds[:3]], c["want"]))
        elif c.get("exact") and not any(k == c["want"] and (f, l) == c["exact"] for k, f, l in nodes):
            # the reading is C's only if its node has C's operands: `1 + (v) - x` is `(1 + (v)) - x`, not `1 + ((v) - x)`
            viol("operands", "the %s of the reading covers %s; in C's reading it covers exactly the text [%d,%d) %r" % (
                c["want"], [(f, l) for k, f, l in nodes if k == c["want"] and f is not None and f >= a and l <= b][:2], c["exact"][0], c["exact"][1], c["text"][c["exact"][0]:c["exact"][1]]))
    # ---- the name-catalog model (Catalog.lean, theorem catalog_decision_is_C) <-> the real cataloger + syntax-correlation strategy,
    # and both against C's scoping (the generator keeps the environment): random block-structured programs over a few names
    from gen.cataloggen import CatalogGen
    from .. import leanb
    ncat = 150 if ctx.quick else 4000
    cprogs = [CatalogGen(random.Random(ctx.seed * 100003 + j), names=2 + j % 4, size=10 + j % 40, maxdepth=2 + j % 4).program() for j in range(ncat)]
    cmodel = leanb.model("catalog", "\n".join(i for _, i, _ in cprogs) + "\n")
    ncatv = ncatc = namb = 0
    for mode in (2, 1):
        cimpl = stages.run_harness(ctx, "disambig", ["%s %s" % (opts(mode), t.encode().hex()) for t, _, _ in cprogs])
        for (text, items, exp), o, m in zip(cprogs, cimpl, cmodel):
            if not m.startswith("valid=1"):
                raise RuntimeError("generator error: the catalog model calls a generated program invalid: %s / %s" % (items, m))
            mdec = [w.split("/")[0] for w in m.split()[1:]]
            mc = [w.split("/")[1] for w in m.split()[1:]]
            if mc != exp:
                raise RuntimeError("generator error: C's roles by the generator %s and by the Lean environment %s differ on %s" % (exp, mc, items))
            if o.startswith(("CRASH", "HANG")):
                viol_text = "the disambiguator did not complete on a catalog program: " + o[:200]
                ctx.report("catalog-crash:" + items[:80], viol_text, {"component": "disambig", "case": "%s %s" % (opts(mode), text.encode().hex()), "text": text})
                ncatv += 1
                continue
            cn = []
            for w in o.partition("| diags=")[0].split():
                k, f, l = w.rsplit(":", 2)
                if k in ("CastExpression", "SubstractExpression") and f != "-":
                    cn.append((int(f), k))
            kinds = [k for _, k in sorted(cn)]
            got = ["t" if k == "CastExpression" else "n" for k in kinds]
            namb += len(exp)
            if got != exp:
                ncatv += 1
                if ncatv <= 3:
                    j = next((x for x in range(min(len(got), len(exp))) if got[x] != exp[x]), min(len(got), len(exp)))
                    ctx.report("catalog:" + items[:80], "mode %s: ambiguity #%d of the program is read as %s; C's scoping makes the name a %s there.  Program:\n%s"
                               % (MODES[mode], j + 1, (got + ["nothing"])[j], {"t": "typedef name (cast)", "n": "variable (subtraction)"}[exp[j]] if j < len(exp) else "?", text),
                               {"component": "disambig", "case": "%s %s" % (opts(mode), text.encode().hex()), "text": text, "items": items})
            if got != mdec:
                ncatc += 1
                if ncatc <= 3:
                    ctx.report("corr-catalog:" + items[:80], "mode %s: readings of the real disambiguator %s differ from the decisions of the Lean catalog model %s on %s" % (MODES[mode], got, mdec, items),
                               {"component": "disambig", "case": "%s %s" % (opts(mode), text.encode().hex()), "text": text, "theorem": "PsycheModel.Catalog.catalog_decision_is_C (correspondence)"}, no_input=True)
    ctx.notes.update({"catalog_programs": ncat, "catalog_ambiguities": namb, "catalog_oracle_violations": ncatv, "catalog_model_disagreements": ncatc})
    ctx.cov.update({
        "evaluations": len(lines), "traces_validated_against_impl": len(lines), "distinct_nontrivial": len({(c["form"], c["ctx"], c["how"]) for c in cases}), "exhaustive": True,
        "rule": "every ambiguity form ((T) - x, (T) + x, (T) * x, (T) & x, (T) && x, (T[0]) - x, (T(1)) - x, sizeof(T[2]), sizeof(T), _Alignof(T), T * x;, T (x);, T ((x));) x every context (26 expression contexts: expression statements, initialisers, call arguments, subscripts, conditions, for clauses, return, switch, case labels, conditional/comma/binary/unary operands, array initialisers, VLA sizes, labelled and nested statements, static assertions; 9 statement contexts) x 10 ways of declaring the name (file/block typedef, struct typedef, file/block variable, parameter, typedef shadowed by variable/parameter, variable shadowed by typedef, enumerator) x the same spellings in another name space or in a scope that has ended (struct member before/after, tag, member access, label, prototype parameter, another function's parameter / local variable / local typedef; quick: a quarter of these variants) x shadowing redeclaration of the declared variable x the 4 disambiguation modes (complete cross product of the generator's tables)",
        "samples": [cases[0]["text"], cases[len(cases) // 2]["text"], cases[-1]["text"]],
    })
    ctx.notes.update({"cases": len(cases), "violations": nviol, "tally": dict(tally), "known_hits": dict(known), "gcc_sample": {"checked": ngcc, "rejected": nbad}})
    ctx.assumptions += ["the guideline-only mode (Heuristic) uses no declarations: it is held to 'no ambiguity left, no diagnostics', not to the reading",
                        "text completeness Full; the Fragment setting only changes diagnostics of incomplete units",
                        "'T (*x);', 'T *x, y;' and 'T *x[2];' in a block are read as expression statements by the PARSER and never become ambiguity nodes (recorded under C04)"]
    if nbad:
        raise RuntimeError("the ambiguity generator produced %d/%d programs gcc rejects" % (nbad, ngcc))
    if not proved:
        stages.lean_unproved(ctx, "C09", "PsycheModel.Props.C09")


def replay(ctx, rec):
    stages.cxx_stage(ctx, "ndebug")
    l = rec["replay"]["case"]
    print("text:\n" + bytes.fromhex(l.split()[1]).decode("latin-1"))
    print("tree:", stages.run_harness(ctx, "disambig", [l])[0][:3000])
    ctx.cov.update({"evaluations": 1, "samples": [l[:200]]})
    return ctx.finish()
