"""Lean side of every check: regenerate -> lake build -> audit (forbidden constructs, #print axioms)."""
import os, re
from .common import LEAN, BUILD, ROOT, Lock, sh

ALLOWED_AXIOMS = {"propext", "Classical.choice", "Quot.sound"}
FORBIDDEN = re.compile(r"\bsorry\b|\badmit\b|^\s*axiom\s|native_decide|bv_decide|implemented_by|\bunsafe\s|maxHeartbeats\s+0|@\[\s*extern")
PSYMODEL = os.path.join(LEAN, ".lake", "build", "bin", "psymodel")


def strip_comments(src):
    # remove /- ... -/ (nested) and -- ... comments; string literals are left alone (good enough for an audit)
    out, i, depth = [], 0, 0
    n = len(src)
    while i < n:
        if src.startswith("/-", i):
            depth += 1; i += 2; continue
        if depth and src.startswith("-/", i):
            depth -= 1; i += 2; continue
        if depth:
            if src[i] == "\n":
                out.append("\n")
            i += 1; continue
        if src.startswith("--", i):
            while i < n and src[i] != "\n":
                i += 1
            continue
        out.append(src[i]); i += 1
    return "".join(out)


def module_files(mod):
    """Transitive closure of `import PsycheModel.*` / `Driver.*` starting at module name `mod`."""
    seen, todo = [], [mod]
    while todo:
        m = todo.pop()
        if m in seen:
            continue
        p = os.path.join(LEAN, *m.split(".")) + ".lean"
        if not os.path.exists(p):
            continue
        seen.append(m)
        for line in open(p):
            mm = re.match(r"\s*import\s+((PsycheModel|Driver)[\w.]*)", line)
            if mm:
                todo.append(mm.group(1))
    return seen


def theorems_of(mod):
    """Fully qualified names of the theorems declared in a module (simple namespace tracking)."""
    p = os.path.join(LEAN, *mod.split(".")) + ".lean"
    src = strip_comments(open(p).read())
    ns, names, nexamples = [], [], 0
    for line in src.split("\n"):
        m = re.match(r"\s*namespace\s+([\w.]+)", line)
        if m:
            ns.append(m.group(1)); continue
        m = re.match(r"\s*end\s+([\w.]+)\s*$", line)
        if m and ns and ns[-1] == m.group(1):
            ns.pop(); continue
        m = re.match(r"\s*(?:@\[[^\]]*\]\s*)?(?:private\s+|protected\s+)?theorem\s+([\w.'!?]+)", line)
        if m:
            names.append(".".join(ns + [m.group(1)]))
        if re.match(r"\s*example\b", line):
            nexamples += 1
    return names, nexamples


def lake_build(targets):
    with Lock("lake"):
        rc, out, err = sh(["lake", "build"] + list(targets), cwd=LEAN, timeout=3000)
    return rc == 0, out + err


def audit(prop_mod):
    """Returns dict(obligations, discharged, problems[], axioms{thm: [..]}, files[])."""
    mods = module_files(prop_mod)
    problems = []
    for m in mods:
        p = os.path.join(LEAN, *m.split(".")) + ".lean"
        for ln, line in enumerate(strip_comments(open(p).read()).split("\n"), 1):
            if FORBIDDEN.search(line):
                problems.append("%s:%d forbidden construct: %s" % (m, ln, line.strip()[:80]))
    thms, nex = [], 0
    for m in mods:
        if ".Props." in m or ".Lemmas." in m or ".Generated." in m:
            t, e = theorems_of(m)
            thms += [(m, x) for x in t]
            if ".Props." in m:
                nex += e
    os.makedirs(BUILD, exist_ok=True)
    af = os.path.join(BUILD, "audit_%s.lean" % prop_mod.replace(".", "_"))
    with open(af, "w") as f:
        f.write("import %s\n" % prop_mod)
        for _, t in thms:
            f.write("#print axioms %s\n" % t)
    with Lock("lake"):
        rc, out, err = sh(["lake", "env", "lean", af], cwd=LEAN, timeout=1200)
    axioms, ok = {}, 0
    txt = out + err
    for m in re.finditer(r"'([^']+)' (does not depend on any axioms|depends on axioms: \[([^\]]*)\])", txt):
        name = m.group(1)
        ax = [a.strip() for a in (m.group(3) or "").replace("\n", " ").split(",") if a.strip()]
        axioms[name] = ax
    for m, t in thms:
        if t not in axioms:
            problems.append("no axiom report for %s (%s)" % (t, m))
        elif set(axioms[t]) - ALLOWED_AXIOMS:
            problems.append("theorem %s uses axioms %s" % (t, sorted(set(axioms[t]) - ALLOWED_AXIOMS)))
        else:
            ok += 1
    if rc != 0 and not problems:
        problems.append("audit file failed: " + txt[-500:])
    prop_thms = [t for m, t in thms if ".Props." in m]
    used = sorted({a for v in axioms.values() for a in v})
    return {"obligations": len(thms) + nex, "discharged": ok + nex if not problems else ok,
            "problems": problems, "axioms_used": used, "property_theorems": prop_thms,
            "examples": nex, "modules": mods,
            "checker_cmd": "cd lean && lake build %s psymodel && lake env lean %s" % (prop_mod, os.path.relpath(af, LEAN))}


def leanchecker(mod):
    with Lock("lake"):
        rc, out, err = sh(["lake", "env", "leanchecker", mod], cwd=LEAN, timeout=3000)
    return rc == 0, (out + err)[-2000:]


def model(component, text, timeout=3000):
    """Pipe `text` through `psymodel <component>`; returns list of output lines."""
    rc, out, err = sh([PSYMODEL, component], input=text, timeout=timeout)
    if rc != 0:
        raise RuntimeError("psymodel %s failed rc=%s: %s" % (component, rc, err[-2000:]))
    return out.split("\n")[:-1] if out.endswith("\n") else out.split("\n")
