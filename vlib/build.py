"""Build the library, the harness `psyh` and `cnip` straight from /repo's working tree (never the
repository's own cmake build), one object directory per flavour, incrementally through ninja."""
import glob, os
from .common import REPO, BUILD, ROOT, NCPU, Lock, sh

FLAVOURS = {
    "ndebug": ["-O1", "-DNDEBUG"],
    "assert": ["-O1"],
    # _GLIBCXX_ASSERTIONS: every std::vector/string/stack access is bounds-checked against size(), not capacity (ASan alone
    # only sees a read past the allocation: C01-b read one element past size() inside spare capacity)
    "asan": ["-O1", "-g", "-DNDEBUG", "-D_GLIBCXX_ASSERTIONS", "-fsanitize=address,undefined", "-fno-sanitize=vptr",
             "-fno-sanitize-recover=undefined", "-fno-omit-frame-pointer"],
    "asan-assert": ["-O1", "-g", "-D_GLIBCXX_ASSERTIONS", "-fsanitize=address,undefined", "-fno-sanitize=vptr",
                    "-fno-sanitize-recover=undefined", "-fno-omit-frame-pointer"],
}
COMMON = ["-std=c++17", "-w", "-DPSYCHEC_VERIF", "-I" + REPO, "-I" + os.path.join(REPO, "C"),
          "-I" + os.path.join(REPO, "common"), "-I" + os.path.join(BUILD, "gen")]


def lib_sources():
    pats = ["C/infra/*.cpp", "C/syntax/*.cpp", "C/parser/*.cpp", "C/reparser/*.cpp", "C/sema/*.cpp",
            "C/symbols/*.cpp", "C/types/*.cpp", "common/*/*.cpp", "utility/*.cpp",
            "compiler_support/gnu/*.cpp", "data-structures/*.cpp",
            "cnippet/*.cpp"]
    out = []
    for p in pats:
        out += sorted(glob.glob(os.path.join(REPO, p)))
    return [s for s in out if not s.endswith("cnippet/Main.cpp")]


def harness_sources():
    return sorted(glob.glob(os.path.join(ROOT, "harness", "*.cpp")))


def obj_name(src):
    rel = os.path.relpath(src, "/")
    return rel.replace("/", "_").rsplit(".", 1)[0] + ".o"


def write_ninja(flavour):
    d = os.path.join(BUILD, flavour)
    os.makedirs(d, exist_ok=True)
    fl = " ".join(COMMON + FLAVOURS[flavour])
    lines = ["cxx = g++", "flags = " + fl,
             "rule cc\n  command = $cxx $flags $extra -MMD -MF $out.d -c $in -o $out\n  depfile = $out.d\n  deps = gcc\n  description = CC $in",
             "rule ar\n  command = rm -f $out && ar rcs $out $in\n  description = AR $out",
             "rule link\n  command = $cxx $flags -o $out $in -ldl -lpthread\n  description = LINK $out"]
    lobjs = []
    for s in lib_sources():
        o = obj_name(s)
        lobjs.append(o)
        lines.append("build %s: cc %s" % (o, s))
    lines.append("build libpsy.a: ar " + " ".join(lobjs))
    hobjs = []
    for s in harness_sources():
        o = "h_" + os.path.basename(s)[:-4] + ".o"
        hobjs.append(o)
        lines.append("build %s: cc %s\n  extra = -fno-access-control -I%s" % (o, s, os.path.join(ROOT, "harness")))
    lines.append("build psyh: link %s libpsy.a" % " ".join(hobjs))
    main = os.path.join(REPO, "cnippet", "Main.cpp")
    lines.append("build cnip_main.o: cc %s" % main)
    lines.append("build cnip: link cnip_main.o libpsy.a")
    lines.append("default psyh cnip")
    txt = "\n".join(lines) + "\n"
    p = os.path.join(d, "build.ninja")
    if not os.path.exists(p) or open(p).read() != txt:
        open(p, "w").write(txt)
    return d


def generate():
    """Regenerate everything that is derived from /repo's sources (Lean data + harness includes)."""
    import sys
    if ROOT not in sys.path:
        sys.path.insert(0, ROOT)
    import translators
    from .common import LEAN
    with Lock("gen"):
        return translators.run_all(REPO, LEAN, os.path.join(BUILD, "gen"))


def build(flavour="ndebug", targets=("psyh",)):
    """Returns (ok, log, dir)."""
    generate()
    with Lock("cxx-" + flavour):
        d = write_ninja(flavour)
        rc, out, err = sh(["ninja", "-C", d, "-j", str(NCPU)] + list(targets))
        return rc == 0, out + err, d


def psyh(flavour="ndebug"):
    return os.path.join(BUILD, flavour, "psyh")
