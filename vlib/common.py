"""Shared plumbing for the /verif checks: paths, process running, locking, known findings,
violation reporting and evidence files."""
import fcntl, hashlib, json, os, random, subprocess, sys, time

ROOT = os.path.dirname(os.path.dirname(os.path.abspath(__file__)))
REPO = os.environ.get("VERIF_REPO", "/repo")
BUILD = os.path.join(ROOT, ".build")
LEAN = os.path.join(ROOT, "lean")
NCPU = os.cpu_count() or 4


def sh(cmd, input=None, timeout=None, cwd=None, env=None, check=False, binary=False):
    """Run a command (list), return (rc, stdout, stderr). A timeout gives rc=-999."""
    e = dict(os.environ)
    if env:
        e.update(env)
    try:
        p = subprocess.run(cmd, input=input, stdout=subprocess.PIPE, stderr=subprocess.PIPE,
                           timeout=timeout, cwd=cwd, env=e, text=not binary)
    except subprocess.TimeoutExpired as ex:
        return -999, (ex.stdout or ("" if not binary else b"")), "timeout"
    if check and p.returncode != 0:
        raise RuntimeError("command failed (%d): %s\n%s\n%s" % (p.returncode, " ".join(cmd), p.stdout[-4000:], p.stderr[-4000:]))
    return p.returncode, p.stdout, p.stderr


class Lock:
    def __init__(self, name):
        os.makedirs(BUILD, exist_ok=True)
        self.path = os.path.join(BUILD, name + ".lock")

    def __enter__(self):
        self.f = open(self.path, "w")
        fcntl.flock(self.f, fcntl.LOCK_EX)
        return self

    def __exit__(self, *a):
        fcntl.flock(self.f, fcntl.LOCK_UN)
        self.f.close()


def load_known():
    p = os.path.join(ROOT, "known_findings.jsonl")
    out = []
    if os.path.exists(p):
        for line in open(p):
            line = line.strip()
            if line and not line.startswith("#"):
                out.append(json.loads(line))
    return out


class Ctx:
    """One run of one property check."""

    def __init__(self, pid, tier, seed):
        self.pid, self.tier, self.seed = pid, tier, seed
        self.t0 = time.time()
        self.rng = random.Random(seed * 1000003 + int(pid[1:]))
        self.known = [k for k in load_known() if k.get("property") == pid and k.get("status") == "known"]
        self.known_hit = {}
        self.violations = []      # (key, what, replay_path)
        self.cov = {"evaluations": 0, "distinct_nontrivial": 0, "rule": "", "samples": [],
                    "obligations": 0, "discharged": 0, "checker_cmd": "", "trusted_base": [],
                    "traces_validated_against_impl": 0, "exhaustive": False}
        self.assumptions = []
        self.notes = {}
        self.quick = tier == "quick"

    def log(self, *a):
        print("[%s %6.1fs]" % (self.pid, time.time() - self.t0), *a, flush=True)

    # -- findings ------------------------------------------------------------------------------
    def report(self, key, what, replay, no_input=False):
        """Report a property violation identified by the stable `key`.  Known findings are printed
        as such (once) and do not fail the check; anything else becomes a VIOLATION line."""
        for k in self.known:
            if k["key"] == key:
                if key not in self.known_hit:
                    self.known_hit[key] = what
                return False
        if any(v[0] == key for v in self.violations):
            return True
        d = os.path.join(ROOT, "replays", self.pid)
        os.makedirs(d, exist_ok=True)
        h = hashlib.sha1(key.encode()).hexdigest()[:12]
        path = os.path.join(d, h + ".json")
        body = {"property": self.pid, "key": key, "what": what, "no_failing_input_found": no_input,
                "tier": self.tier, "seed": self.seed, "replay": replay,
                "replay_cmd": "./check %s --replay %s" % (self.pid, path)}
        with open(path, "w") as f:
            json.dump(body, f, indent=1, default=str)
        self.violations.append((key, what, path, no_input))
        return True

    def finish(self):
        for key, what in self.known_hit.items():
            print("KNOWN-FINDING: property=%s %s [%s]" % (self.pid, what, key))
        ev = {"property_id": self.pid, "tier": self.tier, "seed": self.seed, "level": "proof",
              "coverage": self.cov, "assumptions": self.assumptions,
              "wall_s": round(time.time() - self.t0, 2), "violations": len(self.violations)}
        ev["coverage"]["known_findings_reproduced"] = sorted(self.known_hit)
        ev["coverage"].update(self.notes)
        if not ev["coverage"]["samples"]:
            ev["coverage"]["samples"] = ["(no case was run: the check stopped early)"]
        if not getattr(self, "replaying", False):
            # evidence/ describes runs against /repo itself; a run pointed at another tree (VERIF_REPO=<scratch worktree>,
            # used to try the checks on seeded changes) leaves its record under .build/ instead
            evdir = os.path.join(ROOT, "evidence") if os.path.realpath(REPO) == "/repo" else os.path.join(ROOT, ".build", "evidence-other-tree")
            os.makedirs(evdir, exist_ok=True)
            with open(os.path.join(evdir, self.pid + ".json"), "w") as f:
                json.dump(ev, f, indent=1, default=str)
        for key, what, path, no_input in self.violations:
            print("VIOLATION property=%s replay=%s%s" % (self.pid, path, " no-failing-input-found" if no_input else ""))
            print("  -> " + what[:600])
        return 1 if self.violations else 0
