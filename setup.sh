#!/bin/sh
# Offline setup: build the Lean library + model driver and the default C++ flavour from /repo.
set -e
cd "$(dirname "$0")"
(cd lean && lake build)
python3 - <<'PY'
import sys, os
sys.path.insert(0, os.getcwd())
from vlib import build
ok, log, d = build.build("ndebug", ("psyh", "cnip"))
print(log[-800:])
sys.exit(0 if ok else 1)
PY
