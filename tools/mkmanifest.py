#!/usr/bin/env python3
"""Regenerates /verif/MANIFEST.json from the table below (one entry per claimed property)."""
import json, os
ROOT = os.path.dirname(os.path.dirname(os.path.abspath(__file__)))
props = [json.loads(l) for l in open(os.path.join(ROOT, "properties.jsonl"))]

COMMON_NOTE = ("Trusted: Lean 4.33 kernel; axioms propext/Classical.choice/Quot.sound only (audited with #print axioms on every run; "
               "no sorry/admit/native_decide/bv_decide/user axioms); the hand-written Lean spec; the tie between model and C++ "
               "(translator and/or executed correspondence psyh<->psymodel), its generators and canonicalisers. ")

CLAIMS = {
 "C19": dict(
   text="Lean 4 theorems (Props/C19.lean) over a decision model of CommandLineParser::detectCommandOptions and Driver::go/runCPP/runCFrontEnd with the outside world (file exists, preprocessing ok, syntax/semantic error reported under the configuration) as parameters: for every combination of documented option values, every non-empty list of existing files and every behaviour of the world, exit status 0 iff preprocessing succeeded and no error was reported for any file (semantic errors only without -fsyntax-only); every value listed by -help maps to the behaviour it names; every command line made of documented options/values and .c files decodes without error into exactly those options (induction over the argument list); any decoding error or undocumented value gives a message and status 1; the status is 0 or 1. Tie: the real cnip executable (built from /repo) on the full cross product -std x -disambiguation x -comment x -fsyntax-only x -dump-ast x -pp none x 5 files (1,400 runs, exhaustive), gcc-preprocessed modes sampled (thorough: complete), multi-file/override cases and ~100 malformed argument vectors; front-end verdicts come from psyh, so the exit-status oracle is independent of the driver.",
   note="'--' sub-command execution and -analysis plugins are not modelled; 'prints each reported error' is checked only as non-empty stderr on failure; signals are observed on the real process, not provable in the model.",
   technique="Lean 4 proof over a decision model (case analysis + induction over argv) + exhaustive differential runs of the real executable",
   ref="DESIGN.md §4 C19"),
 "C20": dict(
   text="Lean 4 theorems (Props/C20.lean) over a statement-by-statement model of VersionedMap: for every key/value type and every valid history of any length, switching to a revision that was current earlier restores exactly its contents (incl. revision 0 and branches); insertions get fresh revision numbers and never alter other revisions. The hand model is tied to the real template by running all histories up to 5 ops over 3 keys x 2 values and up to 6 over 2 keys (thorough: 6/7) plus random long ones through both and diffing; the Lean snapshot spec is the oracle that yields the failing history.",
   note="std::unordered_map is assumed to be a finite map; uint32 wrap-around of the revision counter is not modelled; switches name existing revisions.",
   technique="Lean 4 invariant proof over operation histories + differential correspondence of the model with the real template",
   ref="DESIGN.md §4 C20"),
 "C01": dict(
   text="PARTIAL by nature. Proved in Lean 4 (Props/C01.lean) on a skeleton of the parser's token protocol: for every token vector ending in the EOF sentinel and every sequence of consume/match/skipTo/ignore*/backtrack steps the cursor never passes the sentinel, so peek() never indexes outside the vector; every panic-mode recovery loop (stop sets REGENERATED from Parser.cpp by translators/recovery.py, obligation 'EOF is a stop token' by decide) terminates on a stop token or right after a terminator; look-ahead scans stay in bounds; the struct/union/enum member loop advances on every iteration for an arbitrary member parser; the shared nesting counter bounds depth by the declared limit and exceeding it is the only source of the exception. The protocol model is tied to the real Parser by running its cursor operations on lexed token vectors (all op sequences up to length 3 + random). NOT provable here and therefore exercised: C++ object lifetime, null dereference, stack depth, running time - generated valid/truncated/token-mutated/byte-mutated/unterminated/invalid-UTF-8/nested/token-soup inputs x random ParseOptions x syntax category are parsed, fully traversed and queried under NDEBUG, assert and ASan+UBSan builds; any crash, hang, sanitizer report or undeclared exception is a failing input (shrunk, replayable).",
   note="Lexer cursor bounds/termination are covered under C05; nesting beyond limits in constructs without a declared limit (declarator/unary/initializer/if chains ~20k deep) is outside the property's quantifier and overflows the stack; the sweeps are sampling, not proof.",
   technique="Lean 4 invariant proofs on a parser-protocol model (tables regenerated from source) + differential correspondence + sanitizer sweeps for the runtime part",
   ref="DESIGN.md §4 C01"),
 "C08": dict(
   text="Lean 4 theorems (Props/C08.lean) over a transcription of visitBasicTypeSpecifier / visitVoidTypeSpecifier / visit_AtSpecifiers_COMMON: for every sequence of the eleven keywords, of any length and order, the invalid-type diagnostic is absent iff the keyword multiset is a row of C11 6.7.2p2 (+ lone _Complex), the bound type is then the row's type, verdicts are order-independent, interleaved qualifiers/storage classes are transparent, and an empty specifier list gives int + the missing-specifier diagnostic. Proof: the 43 reachable (state, multiset) pairs and their successors are evaluated by the kernel (decide), induction over the sequence lifts it to all lengths. The hand model is tied to the real binder exhaustively: all 16,104 sequences up to length 4 (thorough: 177,155 up to length 5) x variable/parameter/field/typedef position, with and without interleaved const/volatile/static/extern/register; the C11 table is the oracle.",
   note="Only the eleven keywords of the property; the binder is run up to bindDeclarations; after an invalid-type diagnostic the leftover type is not compared.",
   technique="Lean 4 proof by kernel-evaluated reachable-state table + induction; exhaustive differential correspondence with the real binder",
   ref="DESIGN.md §4 C08"),
 "C13": dict(
   text="Lean 4 theorems (Props/C13.lean): the transcribed performIntegerPromotion / performArithmeticConversions / operator dispatch equal the C11 6.3.1.1, 6.3.1.8, 6.5.5-6.5.9, 6.5.16 specification (rank + representability on LP64) for every one of the 18 arithmetic kinds, every ordered pair and every operator of the property (finite, complete: cases <;> rfl); selectTypeForValue returns the first type of the 6.4.4.1 list that represents the value for EVERY value (induction, no bound); suffix decoding by the whole-spelling scanner returns the written suffix for every digit string followed by each of the 23 suffix spellings (induction over the digits); floating suffixes and character-constant prefixes likewise for every body. Tie: hand model <-> real TypeChecker, exhaustive: static functions on all pairs and, end to end through parse+bind+check, typeInfoOf for all 324 pairs x 13 operators x 7 compound assignments and constants at every 2^k boundary x bases x suffix spellings.",
   note="Platform fixed to LP64 (performArithmeticConversions has no platform parameter); L/u/U character constants use the built-in fallback types; bitwise/logical operators record no type and are outside the property's list; hex floats are not lexed by the front end.",
   technique="Lean 4 proof by complete case analysis + induction (unbounded values/spellings); exhaustive differential correspondence with the real type checker",
   ref="DESIGN.md §4 C13"),
 "C14": dict(
   text="Lean 4 theorems (Props/C14.lean) over a generic tree model (ordered holders: token / possibly-null child / node list with delimiters; any shape and depth) with firstToken/lastToken/findValidToken, the list versions and the visitor protocol transcribed: firstToken = head and lastToken = last of the subtree's token sequence unconditionally (mutual structural induction), hence a node that owns a token never reports an invalid extent; under the sibling-order clause (Ordered, inherited by subtrees) the extent of every node is the min/max of its subtree and encloses the extents of all descendants; a full traversal calls preVisit on exactly the pre-order sequence of nodes (each node once, nothing else). Tie: structural dump of real trees (psyh tree) fed to the model: every node of ~1,200 (thorough 21,000) generated valid, token-mutated and byte-mutated programs in all four disambiguation modes and stand-alone categories is compared (first, last, visit count); Ordered is evaluated on every real tree; oracle = min/max of subtree tokens and one visit per node.",
   note="The kind-specific downcast clause is not checked per class; list delimiters are not part of a node's extent; below an unresolved ambiguity node only the first alternative counts for the order clause (exempt by the property); Ordered for parser output is monitored, not proved.",
   technique="Lean 4 proof by mutual structural induction over a generic tree model + differential correspondence on dumps of real trees",
   ref="DESIGN.md §4 C14"),
 "C16": dict(
   text="Lean 4 theorems (Props/C16.lean): the front end's position computation (vector of line starts recorded by the lexer, upper_bound binary search, column subtraction, line-marker re-basing) equals a left-to-right scan of the text for EVERY text and offset (induction over the text, generalised over base offset and accumulated line/column); on the scan: k line breaks inserted at a line boundary before a token add exactly k to its line and keep its column, k blanks inserted before it on its line add exactly k to its column, text after the token is irrelevant, the line distance between a marker and a later token does not depend on the text before the marker; the same laws restated for computePosition and SyntaxToken::location. Tie: hand model <-> real computePosition / newDiagnostic / location() on every token and diagnostic of ~1,200 (thorough 20,000) generated texts incl. excerpts; oracle: the relational laws evaluated on the implementation itself (4 transformed variants per text).",
   note="UTF-8 decoding of yyinput_CORE (bytes -> code units) is modelled for the driver but the theorems are stated on code-unit sequences; markers must stand alone on their line in generated texts; Qt-Creator expansion records are not covered; excerpt/caret construction is modelled and compared, its law is checked on the implementation, not proved.",
   technique="Lean 4 proof by induction over the text (binary-search computation = scan; relational laws) + differential correspondence + metamorphic checks on the implementation",
   ref="DESIGN.md §4 C16"),
 "C17": dict(
   text="Lean 4: generic theorem about the if/else-if trie interpreter (for every well-formed trie, every word of any length and every option valuation: recognised as kind k iff some root-to-return path spells exactly that word, carries kind k and has all its guards true) + four kernel-checked (decide) obligations on the trie that translators/keywords.py REGENERATES from C/parser/Keywords.cpp on every run: no sibling shadowing, nothing after nested chains, every keyword path tests exactly positions 0..n-1 (in bounds), distinct case labels, and set-equality of (spelling, kind, gate) with the hand-written specification table (C89/C99/C11 keywords, macro translations, GNU alternate keywords, extension switches). Corollaries: keyword iff exact spelling and gate; every other word (prefixes, one-character edits, case variants) is an identifier; recognition off => identifier or iso646 operator name. The translator is validated each run by lexing ~14k words x 85 option sets through the real SyntaxTree/Lexer and through the generated trie; the spec table evaluated directly is the oracle that yields failing (options, word) pairs.",
   note="The translator accepts a restricted C++ subset and fails loudly outside it (then: committed trie + full validation, reported as no-failing-input-found). Gates that no standard/manual fixes are recorded from the implementation (listed in KeywordSpec.lean). Reading a character past the word is excluded by the in-bounds obligation, not by running under a sanitizer.",
   technique="Lean 4 proof over a trie regenerated from the C++ source (translator) + decide obligations + translation validation sweep",
   ref="DESIGN.md §4 C17"),
 "C18": dict(
   text="Lean 4 theorems (Props/C18.lean) over a model of TextElementTable/TextElement parametric in the hash function: for every hash function and every history of findOrInsert/find calls on NUL-free words, two calls return the same element identity iff the words are bytewise equal, element texts never change, find succeeds exactly on inserted words, chains never hold dangling identities. Tied to the real TextElementTable<Identifier>/<StringLiteral> by exhaustive small histories over adversarial word sets, threshold-crossing and same-bucket histories and random ones; a dict oracle on the implementation's answers yields the failing history (also on 10^4..4*10^5-word runs).",
   note="Words are NUL-free (the lexer cannot produce a NUL inside a lexeme); strncmp/strncpy NUL behaviour is modelled and compared but outside the property; allocation success assumed; the per-tree use (SyntaxTree::findOrInsert*) is exercised by the C05 token checks.",
   technique="Lean 4 representation-invariant proof for an arbitrary hash function + differential correspondence with the real table",
   ref="DESIGN.md §4 C18"),
}

checks = []
for pid in sorted(CLAIMS):
    c = CLAIMS[pid]
    checks.append({"property_id": pid, "quick_cmd": "./check %s --tier quick" % pid, "thorough_cmd": "./check %s --tier thorough" % pid,
                   "evidence_file": "evidence/%s.json" % pid, "replay_cmd_template": "./check %s --replay {path}" % pid,
                   "engine": "lean-model",
                   "level_claimed": {"category": "proof", "text": c["text"], "design_ref": c["ref"]},
                   "level_note": COMMON_NOTE + c["note"], "technique": c["technique"]})
NA_REASON = {}
m = {"version": 1, "setup_cmd": "./setup.sh",
     "hooks": {"guard": "PSYCHEC_VERIF",
               "enable": "checks compile /repo's sources themselves (vlib/build.py -> ninja, -DPSYCHEC_VERIF); no source hook is needed so far: harness translation units are compiled with -fno-access-control and linked statically against objects built from /repo's working tree",
               "baseline_off_cmd": "cmake --build /repo/_build -j16 && /repo/_build/test-suite", "source_commits": [], "add_only": True},
     "engines": [{"name": "lean-model", "path": "lean/", "serves_properties": sorted(CLAIMS), "kind_free_text": "Lean 4 models, specs and theorems (lake project PsycheModel) + psymodel line driver"},
                 {"name": "psyh", "path": "harness/", "serves_properties": sorted(CLAIMS), "kind_free_text": "C++ correspondence harness calling the real code in-process (line protocol)"}],
     "checks": checks,
     "not_applicable": [{"property_id": p["id"], "reason": NA_REASON.get(p["id"], "no check registered at this commit yet (work in progress; DESIGN.md §8 gives the order of work)")}
                        for p in props if p["id"] not in CLAIMS],
     "notes": "Approach, per-property theorems, ties and trusted base: DESIGN.md. Known findings and fixed defects: known_findings.jsonl."}
json.dump(m, open(os.path.join(ROOT, "MANIFEST.json"), "w"), indent=1)
print("claimed:", sorted(CLAIMS))
