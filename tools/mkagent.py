#!/usr/bin/env python3
"""tools/mkagent.py <PID> <suffix>: creates a scratch worktree and prints the prompt for a seeding sub-agent."""
import json, os, subprocess, sys
pid, suf = sys.argv[1], sys.argv[2]
wt = "/tmp/mut_%s_%s" % (pid, suf)
subprocess.run(["git", "-C", "/repo", "worktree", "add", "-q", "--detach", wt, "HEAD"], check=True)
p = [json.loads(l) for l in open("/verif/properties.jsonl")]
p = [x for x in p if x["id"] == pid][0]
t = open("/verif/tools/agent_prompt.md").read()
anch = "; ".join(p["anchors"]["files"]) + " — mechanisms: " + "; ".join(m["name"] + " (" + m["where"] + ")" for m in p["anchors"].get("mechanism", []))
print(t.replace("{WT}", wt).replace("{PID}", pid).replace("{TITLE}", p["title"]).replace("{STATEMENT}", p["statement"])
      .replace("{QUANT}", p["quantifier"]["text"]).replace("{ANCHORS}", anch))
