#!/usr/bin/env python3
"""tools/c11_known.py: MAINTENANCE (never run by a check).  Re-lists the known findings of C11 in known_findings.jsonl from a full
run on the tree at hand: `VERIF_C11_DUMP=/tmp/c11_all.jsonl ./check C11 --tier thorough; tools/c11_known.py /tmp/c11_all.jsonl`.
Every entry is one (diagnostic id, statement) that gcc accepts and the front end rejects - to be reviewed by hand before committing:
entries that disappeared were repaired (or the generator changed), new entries are new findings."""
import json, sys
dump = [json.loads(l) for l in open(sys.argv[1])]
path = "/verif/known_findings.jsonl"
lines = [l for l in open(path).read().split("\n") if l.strip()]
old = {}
rest = []
for l in lines:
    r = json.loads(l)
    if r.get("property") == "C11" and r.get("status") == "known":
        old[r["key"]] = r
    else:
        rest.append(l)
new = {}
for d in dump:
    k = d["key"]
    if k in new:
        continue
    new[k] = old.get(k) or {"status": "known", "property": "C11", "key": k,
                            "what": "valid C (gcc -std=c11 -pedantic-errors accepts) draws error %s: %s" % (k.split(":")[1], d["src"])}
print("kept %d, dropped %d (no longer rejected), added %d" % (len([k for k in new if k in old]), len([k for k in old if k not in new]), len([k for k in new if k not in old])))
# fixed entries etc. first (in their order), then the C11 list sorted by key
open(path, "w").write("\n".join(rest + [json.dumps(new[k]) for k in sorted(new)]) + "\n")
