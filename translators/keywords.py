"""Translator: C/parser/Keywords.cpp  ->  lean/PsycheModel/Generated/Keywords.lean

Restricted subset accepted (anything else raises TranslateError, loudly):
  static inline SyntaxKind recognizeN(const char* s, const ParseOptions& opts) { BLOCK }
  static inline SyntaxKind translateN(const char* s) { BLOCK }
  BLOCK  := STMT*
  STMT   := 'return SyntaxKind::K;' | IF ('else' IF)*
  IF     := 'if' '(' "s[P] == 'c'" ('&&' GUARD)* ')' '{' BLOCK '}'
  GUARD  := opts.languageDialect().std() >= LanguageDialect::Std::X
          | opts.languageExtensions().isEnabled_F() | opts.languageExtensions().translations().isEnabled_F()
and the two dispatchers  `switch (n) { case N: return recognizeN(s, opts); ... default: return SyntaxKind::IdentifierToken; }`.
"""
import os, re, sys


class TranslateError(Exception):
    pass


TOK = re.compile(r"""\s*(?:(//[^\n]*|/\*.*?\*/)|('(?:\\.|[^'])')|([A-Za-z_][A-Za-z_0-9]*)|(\d+)|(==|>=|&&|::|\|\||[{}()\[\];,.*&<>!=:]))""", re.S)


def tokenize(src):
    pos, out = 0, []
    while pos < len(src):
        m = TOK.match(src, pos)
        if not m:
            if src[pos:].strip() == "":
                break
            raise TranslateError("cannot tokenize at: %r" % src[pos:pos + 40])
        pos = m.end()
        if m.group(1):
            continue
        out.append(m.group(0).strip())
    return out


class P:
    def __init__(self, toks):
        self.t, self.i = toks, 0

    def peek(self, k=0):
        return self.t[self.i + k] if self.i + k < len(self.t) else None

    def eat(self, *exp):
        for e in exp:
            if self.peek() != e:
                raise TranslateError("expected %r, found %r (token %d: ...%s...)" % (e, self.peek(), self.i, " ".join(self.t[max(0, self.i - 8):self.i + 4])))
            self.i += 1

    def block(self):
        stmts = []
        while self.peek() not in ("}", None):
            if self.peek() == "return":
                self.eat("return", "SyntaxKind", "::")
                k = self.peek(); self.i += 1
                self.eat(";")
                stmts.append(("ret", k))
            elif self.peek() == "if":
                brs = [self.ifbranch()]
                while self.peek() == "else":
                    self.eat("else")
                    if self.peek() != "if":
                        raise TranslateError("plain else is outside the subset")
                    brs.append(self.ifbranch())
                stmts.append(("chain", brs))
            else:
                raise TranslateError("statement outside the subset at %r" % " ".join(self.t[self.i:self.i + 8]))
        return stmts

    def ifbranch(self):
        self.eat("if", "(", "s", "[")
        pos = int(self.peek()); self.i += 1
        self.eat("]", "==")
        c = self.peek(); self.i += 1
        if not (c.startswith("'") and len(c) == 3):
            raise TranslateError("character literal expected, got %r" % c)
        guards = []
        while self.peek() == "&&":
            self.eat("&&", "opts", ".")
            if self.peek() == "languageDialect":
                self.eat("languageDialect", "(", ")", ".", "std", "(", ")", ">=", "LanguageDialect", "::", "Std", "::")
                guards.append(("std", self.peek())); self.i += 1
            else:
                self.eat("languageExtensions", "(", ")", ".")
                if self.peek() == "translations":
                    self.eat("translations", "(", ")", ".")
                f = self.peek(); self.i += 1
                if not f.startswith("isEnabled_"):
                    raise TranslateError("guard outside the subset: %r" % f)
                self.eat("(", ")")
                guards.append(("flag", f[len("isEnabled_"):]))
        self.eat(")", "{")
        body = self.block()
        self.eat("}")
        return (pos, ord(c[1]), guards, body)


def parse_keywords(path):
    src = open(path).read()
    funcs = {}
    for m in re.finditer(r"static inline SyntaxKind (recognize|translate)(\d+)\(const char\* s(?:, const ParseOptions& opts)?\)\s*\{", src):
        # find matching brace
        i, depth = m.end(), 1
        while depth:
            ch = src[i]
            if ch == "{": depth += 1
            elif ch == "}": depth -= 1
            elif ch == "'" : i += 2
            i += 1
        body = src[m.end():i - 1]
        p = P(tokenize(body))
        blk = p.block()
        if p.peek() is not None:
            raise TranslateError("trailing tokens in %s%s" % (m.group(1), m.group(2)))
        funcs[(m.group(1), int(m.group(2)))] = blk
    disp = {}
    for kind in ("recognize", "translate"):
        m = re.search(r"SyntaxKind Lexer::%s\(const char\* s, int n, const ParseOptions& opts\)\s*\{\s*switch \(n\) \{(.*?)\n    \}\s*\}" % kind, src, re.S)
        if not m:
            raise TranslateError("dispatcher Lexer::%s not found in the expected form" % kind)
        cases = {}
        for line in m.group(1).strip().split("\n"):
            line = line.strip()
            if not line:
                continue
            mm = re.match(r"case (\d+): return %s(\d+)\(s(?:, opts)?\);$" % kind, line)
            if mm:
                cases[int(mm.group(1))] = int(mm.group(2))
            elif re.match(r"default:\s*return SyntaxKind::IdentifierToken;$", line):
                pass
            else:
                raise TranslateError("dispatcher line outside the subset: %r" % line)
        disp[kind] = cases
    for kind in disp:
        for n, f in disp[kind].items():
            if (kind, f) not in funcs:
                raise TranslateError("%s%d is dispatched to but not defined" % (kind, f))
    return funcs, disp


STD = {"C89_90": 0, "C99": 1, "C11": 2, "C17_18": 3}


def lean_block(stmts, ind):
    if not stmts:
        return "Block.nil"
    s, rest = stmts[0], stmts[1:]
    if s[0] == "ret":
        if rest:
            raise TranslateError("statement after return")
        return "(Block.ret Kind.%s)" % s[1]
    pad = " " * ind
    return "(Block.chain\n%s%s\n%s%s)" % (pad, lean_branches(s[1], ind + 1), pad, lean_block(rest, ind + 1))


def lean_branches(brs, ind):
    if not brs:
        return "Branches.nil"
    pos, ch, guards, body = brs[0]
    gs = "[" + ", ".join(('Guard.stdGE %d' % STD[g[1]]) if g[0] == "std" else ('Guard.flag .%s' % g[1]) for g in guards) + "]"
    pad = " " * ind
    return "(Branches.cons %d %d %s %s\n%s%s)" % (pos, ch, gs, lean_block(body, ind + 1), pad, lean_branches(brs[1:], ind))


def flags_of(funcs):
    out = []
    def walk(stmts):
        for s in stmts:
            if s[0] == "chain":
                for pos, ch, guards, body in s[1]:
                    for g in guards:
                        if g[0] == "flag" and g[1] not in out:
                            out.append(g[1])
                    walk(body)
    for k in sorted(funcs):
        walk(funcs[k])
    return out


def emit(funcs, disp):
    L = ["import PsycheModel.KeywordTrie",
         "/-! GENERATED by translators/keywords.py from C/parser/Keywords.cpp — do not edit. -/", "namespace PsycheModel.Generated.Keywords", "open PsycheModel.KeywordTrie PsycheModel.Generated", ""]
    for (kind, n) in sorted(funcs):
        L.append("def %s%d : Block :=\n  %s\n" % (kind, n, lean_block(funcs[(kind, n)], 2)))
    for kind in ("recognize", "translate"):
        L.append("/-- `Lexer::%s`: the `switch (n)` dispatcher as (length, function) pairs -/" % kind)
        L.append("def %sTable : List (Nat × Block) :=\n  [%s]\n" % (kind, ", ".join("(%d, %s%d)" % (n, kind, f) for n, f in sorted(disp[kind].items()))))
    L.append("\nend PsycheModel.Generated.Keywords")
    return "\n".join(L) + "\n"


def paths(funcs, disp):
    """Python mirror of the Lean `paths` (used only for reporting / oracle sweeps)."""
    out = []
    def walk(stmts, cs, gs, n, kind):
        for s in stmts:
            if s[0] == "ret":
                out.append((kind, n, list(cs), list(gs), s[1]))
            else:
                for pos, ch, guards, body in s[1]:
                    walk(body, cs + [(pos, ch)], gs + guards, n, kind)
    for kind in disp:
        for n, f in disp[kind].items():
            walk(funcs[(kind, f)], [], [], n, kind)
    return out


def main(repo, outpath):
    funcs, disp = parse_keywords(os.path.join(repo, "C/parser/Keywords.cpp"))
    txt = emit(funcs, disp)
    if not os.path.exists(outpath) or open(outpath).read() != txt:
        os.makedirs(os.path.dirname(outpath), exist_ok=True)
        open(outpath, "w").write(txt)
    return funcs, disp


if __name__ == "__main__":
    funcs, disp = parse_keywords(os.path.join(sys.argv[1] if len(sys.argv) > 1 else "/repo", "C/parser/Keywords.cpp"))
    for kind, n, cs, gs, k in paths(funcs, disp):
        if k != "IdentifierToken":
            w = "".join(chr(c) for p, c in cs)
            ok = [p for p, c in cs] == list(range(n))
            print(kind, n, w, "" if ok else "INCOMPLETE", " & ".join("%s:%s" % g for g in gs), "->", k)
