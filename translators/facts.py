"""Translator: operator tables of the expression parser -> lean/PsycheModel/Generated/Facts.lean

Sources: C/parser/Parser_Expressions.cpp (enum NAryPrecedence, precedenceOf, isRightAssociative) and
C/syntax/SyntaxFacts.h (isNAryOperatorSyntax, kindOfNAryOperatorSyntax, isKindOfAssignmentExpression,
isKindOfBinaryExpression).  Accepted shape of a table function: one `switch` whose groups are
`case SyntaxKind::A: ... case SyntaxKind::B: return V;` plus `default: return D;` (anything else: TranslateError)."""
import os, re


class TranslateError(Exception):
    pass


def strip_comments(s):
    s = re.sub(r"/\*.*?\*/", "", s, flags=re.S)
    return re.sub(r"//[^\n]*", "", s)


def body_of(src, head_regex):
    m = re.search(head_regex, src)
    if not m:
        raise TranslateError("function not found: " + head_regex)
    i = src.index("{", m.end() - 1)
    depth, j = 0, i
    while True:
        if src[j] == "{": depth += 1
        elif src[j] == "}":
            depth -= 1
            if depth == 0:
                break
        j += 1
    return src[i + 1:j]


def parse_switch(body, what):
    m = re.search(r"switch \((?:\w+|\w+\.kind\(\))\) \{(.*)\}", body, re.S)
    if not m:
        raise TranslateError("%s: no switch" % what)
    inner = m.group(1)
    rest = body[:m.start()] + body[m.end():]
    table, default = {}, None
    groups = re.split(r"(?<=;)\s*(?=case |default:)", inner.strip())
    for g in groups:
        g = g.strip()
        if not g:
            continue
        labels = re.findall(r"case SyntaxKind::(\w+):", g)
        tail = re.sub(r"case SyntaxKind::\w+:", "", g).strip()
        mm = re.match(r"^(default:\s*)?return ([\w:]+);$", re.sub(r"\s+", " ", tail))
        if not mm:
            raise TranslateError("%s: group outside the subset: %r" % (what, tail[:80]))
        if mm.group(1):
            default = mm.group(2)
        else:
            for l in labels:
                if l in table:
                    raise TranslateError("%s: duplicate label %s" % (what, l))
                table[l] = mm.group(2)
    if default is None:
        # a trailing `return D;` after the switch
        mm = re.search(r"return ([\w:]+);\s*$", rest.strip())
        if not mm:
            raise TranslateError("%s: no default" % what)
        default = mm.group(1)
    return table, default


def parse(repo):
    pe = strip_comments(open(os.path.join(repo, "C/parser/Parser_Expressions.cpp")).read())
    sf = strip_comments(open(os.path.join(repo, "C/syntax/SyntaxFacts.h")).read())
    m = re.search(r"namespace NAryPrecedence \{\s*enum : std::uint8_t\s*\{(.*?)\};", pe, re.S)
    if not m:
        raise TranslateError("NAryPrecedence enum not found")
    levels, nxt = {}, 0
    for item in m.group(1).split(","):
        item = item.strip()
        if not item:
            continue
        mm = re.match(r"^(\w+)(?:\s*=\s*(\d+))?$", item)
        if not mm:
            raise TranslateError("NAryPrecedence enumerator: %r" % item)
        nxt = int(mm.group(2)) if mm.group(2) else nxt
        levels[mm.group(1)] = nxt
        nxt += 1
    prec, pdef = parse_switch(body_of(pe, r"std::uint8_t precedenceOf\(SyntaxKind tkK\)\s*\{"), "precedenceOf")
    if pdef != "NAryPrecedence::Undefined":
        raise TranslateError("precedenceOf default is %s" % pdef)
    prec = {k: levels[v.split("::")[1]] for k, v in prec.items()}
    rb = body_of(pe, r"bool isRightAssociative\(SyntaxKind tkK\)\s*\{")
    mm = re.match(r"^\s*auto prec = precedenceOf\(tkK\);\s*return (.*);\s*$", rb, re.S)
    if not mm:
        raise TranslateError("isRightAssociative outside the subset")
    ra = []
    for term in mm.group(1).split("||"):
        t = re.match(r"^\s*prec == NAryPrecedence::(\w+)\s*$", term)
        if not t:
            raise TranslateError("isRightAssociative term: %r" % term)
        ra.append(levels[t.group(1)])
    kinds, kdef = parse_switch(body_of(sf, r"static SyntaxKind kindOfNAryOperatorSyntax\(SyntaxToken tk\)\s*\{"), "kindOfNAryOperatorSyntax")
    kinds = {k: v.split("::")[1] for k, v in kinds.items()}
    isop, idef = parse_switch(body_of(sf, r"static bool isNAryOperatorSyntax\(SyntaxToken tk\)\s*\{"), "isNAryOperatorSyntax")
    isasg, adef = parse_switch(body_of(sf, r"static bool isKindOfAssignmentExpression\(SyntaxKind exprK\)\s*\{"), "isKindOfAssignmentExpression")
    isbin, bdef = parse_switch(body_of(sf, r"static bool isKindOfBinaryExpression\(SyntaxKind exprK\)\s*\{"), "isKindOfBinaryExpression")
    for t, d, n in ((isop, idef, "isNAryOperatorSyntax"), (isasg, adef, "isKindOfAssignmentExpression"), (isbin, bdef, "isKindOfBinaryExpression")):
        if d != "false" or any(v != "true" for v in t.values()):
            raise TranslateError("%s is not a 'true for these, false otherwise' table" % n)
    # ---- prefix operators: parseExpressionWithPrecedenceUnary
    ub = body_of(pe, r"bool Parser::parseExpressionWithPrecedenceUnary\(ExpressionSyntax\*& expr\)\s*\{")
    prefix = {}
    guarded = []
    # between the labels and the call: nothing, or guard statements (`if (...) diagnostic;`, `if (...) { ...; return false; }`) - an operator with
    # guards is listed in `prefixGuarded`: its operand is restricted further than the operand parser says (GNU `&&label`)
    for m in re.finditer(r"((?:case SyntaxKind::\w+:\s*)+)((?:(?!case SyntaxKind::)(?!default:)(?!return parse)[\s\S])*?(?:return false;\s*\}\s*)?)return parsePrefixUnaryExpression_AtFirst\(\s*expr,\s*SyntaxKind::(\w+),\s*&Parser::parseExpressionWithPrecedence(Unary|Cast)\);", ub):
        for lab in re.findall(r"case SyntaxKind::(\w+):", m.group(1)):
            if lab in prefix:
                raise TranslateError("prefix operator listed twice: " + lab)
            prefix[lab] = (m.group(3), m.group(4) == "Unary")
            if "return false" in m.group(2):
                guarded.append(lab)
    if ub.count("parsePrefixUnaryExpression_AtFirst") != len(set(v[0] for v in prefix.values())):
        raise TranslateError("parseExpressionWithPrecedenceUnary: a prefix-operator case is outside the subset")
    # ---- postfix loop: parsePostfixExpression_AtFollowOfPrimary
    pb = body_of(pe, r"bool Parser::parsePostfixExpression_AtFollowOfPrimary\(ExpressionSyntax\*& expr\)\s*\{")
    postfix = {}
    labels = []
    for m in re.finditer(r"case SyntaxKind::(\w+):|parsePostfixExpression_AtFollowOfPrimary<(\w+)>|break;", pb):
        if m.group(1):
            labels.append(m.group(1))
        elif m.group(2):
            for lab in labels:
                postfix[lab] = m.group(2)
            labels = []
    if pb.count("parsePostfixExpression_AtFollowOfPrimary<") != len(set(postfix.values())) or labels:
        raise TranslateError("parsePostfixExpression_AtFollowOfPrimary outside the subset")
    # ---- `( type-name )`: the tokens after `(` that make parseExpressionWithPrecedenceCast read a cast / compound literal
    cb = body_of(pe, r"bool Parser::parseExpressionWithPrecedenceCast\(ExpressionSyntax\*& expr\)\s*\{")
    m = re.search(r"switch \(peek\(2\)\.kind\(\)\) \{((?:\s*case SyntaxKind::\w+:)+)\s*return parseCompoundLiteralOrCastExpression_AtFirst\(expr\);", cb)
    if not m:
        raise TranslateError("parseExpressionWithPrecedenceCast outside the subset")
    typestart = re.findall(r"case SyntaxKind::(\w+):", m.group(1))
    # ---- FIRST sets: the keywords that send a statement / the first clause of a `for` to the declaration parser, the keywords
    # parseDeclarationSpecifiers takes as a specifier, those parseSpecifierQualifierList takes
    ps = strip_comments(open(os.path.join(repo, "C/parser/Parser_Statements.cpp")).read())
    pd = strip_comments(open(os.path.join(repo, "C/parser/Parser_Declarations.cpp")).read())

    def labels_between(src, start, stop):
        i = src.index(start)
        j = src.index(stop, i)
        return list(dict.fromkeys(re.findall(r"case SyntaxKind::(Keyword\w+):", src[i:j])))
    try:
        stmt_decl = labels_between(ps, "bool Parser::parseStatement(", "case SyntaxKind::IdentifierToken")
        for_decl = labels_between(ps, "bool Parser::parseForStatement_AtFirst(", "case SyntaxKind::IdentifierToken")
        decl_spec = labels_between(pd, "bool Parser::parseDeclarationSpecifiers(", "bool Parser::parseSpecifierQualifierList(")
        spec_qual = labels_between(pd, "bool Parser::parseSpecifierQualifierList(", "void Parser::parseTrivialSpecifier_AtFirst")
    except ValueError as e:
        raise TranslateError("FIRST-set switches not found in the expected form: %s" % e)
    if not (stmt_decl and for_decl and decl_spec and spec_qual):
        raise TranslateError("an empty FIRST set")
    # ---- the statement dispatch of parseStatement: which rule each statement keyword / token is handed to
    i0 = ps.index("bool Parser::parseStatement(")
    i1 = ps.index("\nbool Parser::", i0 + 10)
    sb = ps[i0:i1]
    dispatch = []
    for m in re.finditer(r"case SyntaxKind::(\w+):((?:(?!case SyntaxKind::)(?!default:)[\s\S])*?)return (parse\w+)\(", sb):
        lab, between, fn = m.group(1), m.group(2), m.group(3)
        if lab.startswith("Keyword_") and lab[8:] in ("if", "switch", "case", "default", "while", "do", "for", "goto", "continue", "break", "return") or lab == "OpenBraceToken":
            dispatch.append((lab, fn))
    if len(dispatch) < 12:
        raise TranslateError("parseStatement: statement dispatch outside the subset (%d cases found)" % len(dispatch))
    return dict(dispatch=dispatch, guarded=guarded, stmt_decl=stmt_decl, for_decl=for_decl, decl_spec=decl_spec, spec_qual=spec_qual, prefix=prefix, postfix=postfix, typestart=typestart, levels=levels, prec=prec, ra=ra, kinds=kinds, kdef=kdef.split("::")[1], isop=sorted(isop), isasg=sorted(isasg), isbin=sorted(isbin))


def main(repo, outpath):
    t = parse(repo)
    L = ["import PsycheModel.Generated.SyntaxKind", "/-! GENERATED by translators/facts.py from Parser_Expressions.cpp and SyntaxFacts.h — do not edit. -/",
         "namespace PsycheModel.Generated.Facts", "open PsycheModel.Generated", ""]
    L.append("/-- `precedenceOf` (levels of `NAryPrecedence`; `Undefined` = 0) -/")
    L.append("def precedenceOf : Kind → Nat")
    for k, v in t["prec"].items():
        L.append("  | .%s => %d" % (k, v))
    L.append("  | _ => 0\n")
    L.append("/-- levels named by `isRightAssociative` -/")
    L.append("def rightAssocLevels : List Nat := [%s]\n" % ", ".join(map(str, t["ra"])))
    L.append("/-- `SyntaxFacts::kindOfNAryOperatorSyntax` -/")
    L.append("def kindOfNAry : Kind → Kind")
    for k, v in t["kinds"].items():
        L.append("  | .%s => .%s" % (k, v))
    L.append("  | _ => .%s\n" % t["kdef"])
    for name, lst in (("isNAryOperator", t["isop"]), ("isKindOfAssignment", t["isasg"]), ("isKindOfBinary", t["isbin"])):
        L.append("def %s : Kind → Bool" % name)
        L.append("  | %s => true" % " | ".join("." + k for k in lst))
        L.append("  | _ => false\n")
    L.append("/-- `parseExpressionWithPrecedenceUnary`: prefix operators; `some true` = the operand is parsed as a unary-expression, `some false` = as a cast-expression -/")
    L.append("def prefixOperand : Kind → Option Bool")
    for k, (node, un) in t["prefix"].items():
        L.append("  | .%s => some %s" % (k, "true" if un else "false"))
    L.append("  | _ => none\n")
    L.append("/-- prefix operators whose case carries a guard that refuses some operands before the operand parser is called -/")
    L.append("def prefixGuarded : List Kind := [%s]\n" % ", ".join("." + k for k in t["guarded"]))
    L.append("def prefixNode : Kind → Kind")
    for k, (node, un) in t["prefix"].items():
        L.append("  | .%s => .%s" % (k, node))
    L.append("  | _ => .Error\n")
    for name, cls in (("postfixIncDec", "PostfixUnaryExpressionSyntax"), ("memberAccess", "MemberAccessExpressionSyntax"),
                      ("subscriptOpen", "ArraySubscriptExpressionSyntax"), ("callOpen", "CallExpressionSyntax")):
        L.append("/-- `parsePostfixExpression_AtFollowOfPrimary`: tokens continuing with a `%s` -/" % cls)
        L.append("def %s : List Kind := [%s]\n" % (name, ", ".join("." + k for k, v in t["postfix"].items() if v == cls)))
    L.append("/-- `parseExpressionWithPrecedenceCast`: after `(`, these tokens start a type name -/")
    L.append("def castTypeStart : List Kind := [%s]\n" % ", ".join("." + k for k in t["typestart"]))
    for name, key, doc in (("stmtDeclStart", "stmt_decl", "`parseStatement`: keywords that send the statement to the declaration parser"),
                           ("forDeclStart", "for_decl", "`parseForStatement_AtFirst`: keywords that make the first clause a declaration"),
                           ("declSpecStart", "decl_spec", "`parseDeclarationSpecifiers`: keywords it takes as a specifier"),
                           ("specQualStart", "spec_qual", "`parseSpecifierQualifierList`: keywords it takes as a specifier or qualifier")):
        L.append("/-- %s -/" % doc)
        L.append("def %s : List Kind := [%s]\n" % (name, ", ".join("." + k for k in t[key])))
    L.append("/-- `parseStatement`: the rule each statement keyword (and `{`) is handed to -/")
    L.append("def stmtDispatch : List (Kind × String) := [%s]\n" % ", ".join('(.%s, "%s")' % kv for kv in t["dispatch"]))
    L.append("def levelNames : List (String × Nat) := [%s]" % ", ".join('("%s", %d)' % kv for kv in t["levels"].items()))
    L.append("\nend PsycheModel.Generated.Facts\n")
    txt = "\n".join(L)
    os.makedirs(os.path.dirname(outpath), exist_ok=True)
    if not os.path.exists(outpath) or open(outpath).read() != txt:
        open(outpath, "w").write(txt)
    return t


if __name__ == "__main__":
    import sys, json
    print(json.dumps(parse(sys.argv[1] if len(sys.argv) > 1 else "/repo"), indent=0)[:1500])
