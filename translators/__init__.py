"""Translators from /repo's C++ sources to generated Lean data.  `run_all` is called at the start of every
check: it regenerates every generated file from the current working tree.  A translator that fails (source
left its subset) leaves the committed last-known-good file in place and records the error, which the
property check that depends on it turns into a verdict."""
import json, os, subprocess, traceback

ROOT = os.path.dirname(os.path.dirname(os.path.abspath(__file__)))


def run_all(repo, lean_dir, gen_dir):
    from . import syntaxkind, keywords, recovery, facts, nodeclasses
    errors = {}
    G = os.path.join(lean_dir, "PsycheModel", "Generated")
    jobs = [
        ("syntaxkind", lambda: syntaxkind.main(repo, os.path.join(G, "SyntaxKind.lean"), os.path.join(gen_dir, "kindnames.inc")), ["SyntaxKind.lean"]),
        ("keywords", lambda: keywords.main(repo, os.path.join(G, "Keywords.lean")), ["Keywords.lean"]),
        ("recovery", lambda: recovery.main(repo, os.path.join(G, "Recovery.lean")), ["Recovery.lean"]),
        ("facts", lambda: facts.main(repo, os.path.join(G, "Facts.lean")), ["Facts.lean"]),
        ("nodeclasses", lambda: nodeclasses.main(repo, os.path.join(G, "NodeClasses.lean"), os.path.join(gen_dir, "node_classes.inc")), ["NodeClasses.lean"]),
    ]
    for name, fn, files in jobs:
        try:
            fn()
        except Exception as ex:
            errors[name] = "%s: %s" % (type(ex).__name__, ex)
            for f in files:
                subprocess.run(["git", "checkout", "--", os.path.relpath(os.path.join(G, f), ROOT)], cwd=ROOT,
                               stdout=subprocess.DEVNULL, stderr=subprocess.DEVNULL)
    os.makedirs(gen_dir, exist_ok=True)
    if "nodeclasses" in errors:
        # the harness includes the class table: fall back to the committed last-known-good copy (C14 reports the translator's failure)
        import shutil
        shutil.copyfile(os.path.join(ROOT, "harness", "node_classes.fallback.inc"), os.path.join(gen_dir, "node_classes.inc"))
    with open(os.path.join(gen_dir, "translator_errors.json"), "w") as f:
        json.dump(errors, f)
    return errors
